//go:build verif

// Machine-checked contracts for package l4dns (comment-only; read by /verif/gvc).

package l4dns

//@ func (m *MatchDNS) Match(cx *layer4.Connection) (matched bool, err error)
//@ requires wfm(cx)
//@ safety C04
