//go:build verif

// Machine-checked contracts for package l4clock (comment-only; read by /verif/gvc).

package l4clock

//@ func (m *MatchClock) Match(cx *layer4.Connection) (matched bool, err error)
//@ requires wfm(cx)
//@ safety C04
