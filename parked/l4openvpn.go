//go:build verif

// Machine-checked contracts for package l4openvpn (comment-only; read by /verif/gvc).

package l4openvpn

//@ func (m *MatchOpenVPN) Match(cx *layer4.Connection) (matched bool, err error)
//@ requires wfm(cx)
//@ safety C04
