//go:build verif

// Machine-checked contracts for package l4winbox (comment-only; read by /verif/gvc).

package l4winbox

//@ func (m *MatchWinbox) Match(cx *layer4.Connection) (matched bool, err error)
//@ requires wfm(cx)
//@ safety C04
