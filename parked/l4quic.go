//go:build verif

// Machine-checked contracts for package l4quic (comment-only; read by /verif/gvc).

package l4quic

//@ func (m *MatchQUIC) Match(cx *layer4.Connection) (matched bool, err error)
//@ requires wfm(cx)
//@ safety C04
