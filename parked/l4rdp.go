//go:build verif

// Machine-checked contracts for package l4rdp (comment-only; read by /verif/gvc).

package l4rdp

//@ func (m *MatchRDP) Match(cx *layer4.Connection) (matched bool, err error)
//@ requires wfm(cx)
//@ safety C04
