//go:build verif

// Machine-checked contracts for package l4http (comment-only; read by /verif/gvc).

package l4http

//@ func (m *MatchHTTP) Match(cx *layer4.Connection) (matched bool, err error)
//@ requires wfm(cx)
//@ safety C04
