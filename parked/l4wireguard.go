//go:build verif

// Machine-checked contracts for package l4wireguard (comment-only; read by /verif/gvc).

package l4wireguard

//@ func (m *MatchWireGuard) Match(cx *layer4.Connection) (matched bool, err error)
//@ requires wfm(cx)
//@ safety C04
