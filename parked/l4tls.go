//go:build verif

// Machine-checked contracts for package l4tls (comment-only; read by /verif/gvc).

package l4tls

//@ func (m *MatchTLS) Match(cx *layer4.Connection) (matched bool, err error)
//@ requires wfm(cx)
//@ safety C04
