package layer4

// Demonstration of the defect repaired by the "fix:" commit on layer4/listener.go (copy into
// layer4/ to run): listener.handle returned the matching buffer of a hijacked (handed-off)
// connection to the pool, so the next connection's prefetch overwrote bytes the first one had
// not read yet. Fails on the pre-fix code, passes on the repaired code.

import (
	"io"
	"net"
	"sync"
	"testing"
	"time"

	"go.uber.org/zap"
)

type needFive struct{}

func (needFive) Match(cx *Connection) (bool, error) {
	p := make([]byte, 5)
	if _, err := io.ReadFull(cx, p); err != nil {
		return false, err
	}
	return false, nil // never matches: the connection falls through to the wrapped listener
}

func TestFindingHijackedBufferReuse(t *testing.T) {
	routes := RouteList{&Route{matcherSets: MatcherSets{MatcherSet{needFive{}}}}}
	l := &listener{
		logger:        zap.NewNop(),
		compiledRoute: routes.Compile(zap.NewNop(), time.Second, listenerHandler{}),
		done:          make(chan struct{}),
		connChan:      make(chan net.Conn, 4),
		wg:            new(sync.WaitGroup),
	}
	serve := func(payload string) net.Conn {
		c1, c2 := net.Pipe()
		go func() { _, _ = c2.Write([]byte(payload)) }()
		l.wg.Add(1)
		l.handle(c1) // synchronous: returns after the hand-off
		return <-l.connChan
	}
	a := serve("AAAAA")
	_ = serve("BBBBB") // reuses the pooled buffer on the pre-fix code
	got := make([]byte, 5)
	if _, err := io.ReadFull(a, got); err != nil {
		t.Fatal(err)
	}
	if string(got) != "AAAAA" {
		t.Fatalf("connection A read %q, want its own bytes AAAAA", got)
	}
}
