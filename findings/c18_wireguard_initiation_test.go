// Demonstration of the C18 defect found by the obligation lemmaInitiationParseSerialize/post#1
// (modules/l4wireguard): MessageInitiation.FromBytes accepted 149 bytes and ToBytes gave 148.
package l4wireguard

import (
	"bytes"
	"testing"
)

func TestFindingInitiationRejectsOverlongInput(t *testing.T) {
	src := bytes.Repeat([]byte{0x41}, MessageInitiationBytesTotal+1)
	msg := &MessageInitiation{}
	if err := msg.FromBytes(src); err != nil {
		return
	}
	out, _ := msg.ToBytes()
	if !bytes.Equal(out, src) {
		t.Errorf("accepted %d bytes, serialises to %d bytes", len(src), len(out))
	}
}
