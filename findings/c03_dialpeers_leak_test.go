// Demonstration of the C03 defect found by the obligation (*Handler).dialPeers/post#4
// (err != nil ==> nopen() == old(nopen())): when the PROXY header cannot be written to a connection
// that was just dialed, dialPeers returned the error without closing that connection (only the
// connections of the earlier peers were closed). The upstream here accepts and resets at once; a slow
// debug log between the dial and the header write (the log call is where it is in the real code)
// lets the reset arrive first, so the write fails. Open descriptors are counted before and after
// with the garbage collector off (a leaked net.Conn is otherwise closed by its finalizer some day).
package l4proxy

import (
	"net"
	"os"
	"runtime/debug"
	"testing"
	"time"

	"github.com/caddyserver/caddy/v2"
	"github.com/mholt/caddy-l4/layer4"
	"go.uber.org/zap"
	"go.uber.org/zap/zapcore"
)

type slowCore struct{ zapcore.LevelEnabler }

func (c slowCore) With([]zapcore.Field) zapcore.Core { return c }
func (c slowCore) Check(e zapcore.Entry, ce *zapcore.CheckedEntry) *zapcore.CheckedEntry {
	return ce.AddCore(e, c)
}
func (c slowCore) Write(zapcore.Entry, []zapcore.Field) error {
	time.Sleep(150 * time.Millisecond)
	return nil
}
func (c slowCore) Sync() error { return nil }

func openFDs(t *testing.T) int {
	t.Helper()
	ents, err := os.ReadDir("/proc/self/fd")
	if err != nil {
		t.Skip("no /proc/self/fd")
	}
	return len(ents)
}

func TestFindingDialPeersClosesConnWhenHeaderWriteFails(t *testing.T) {
	defer debug.SetGCPercent(debug.SetGCPercent(-1))
	ln, err := net.Listen("tcp", "127.0.0.1:0")
	if err != nil {
		t.Fatal(err)
	}
	defer ln.Close()
	go func() {
		for {
			c, err := ln.Accept()
			if err != nil {
				return
			}
			c.(*net.TCPConn).SetLinger(0) // reset instead of an orderly close
			c.Close()
		}
	}()
	port := uint(ln.Addr().(*net.TCPAddr).Port)
	c1, c2 := net.Pipe()
	defer c1.Close()
	defer c2.Close()
	down := layer4.WrapConnection(c1, []byte{}, zap.NewNop())
	h := &Handler{logger: zap.New(slowCore{zapcore.DebugLevel}), proxyProtocolVersion: 1}
	up := &Upstream{peers: []*peer{{address: caddy.NetworkAddress{Network: "tcp", Host: "127.0.0.1", StartPort: port, EndPort: port}}}}
	failed := 0
	before := openFDs(t)
	for i := 0; i < 5; i++ {
		conns, err := h.dialPeers(up, caddy.NewReplacer(), down)
		if err == nil {
			for _, c := range conns {
				c.Close()
			}
			continue
		}
		failed++
	}
	after := openFDs(t)
	if failed == 0 {
		t.Skip("the header write never failed on this machine")
	}
	if after != before {
		t.Fatalf("%d failed dial attempts left %d descriptors open", failed, after-before)
	}
}
