// Demonstration of the C18 defect found by the obligations lemmaTPKTParseSerialize/post#1,
// lemmaX224ParseSerialize/post#1, lemmaNegReqParseSerialize/post#1, lemmaCorrInfoParseSerialize/post#1
// (modules/l4rdp): the fixed-size parsers accepted inputs longer than the message and dropped the
// tail, so parse followed by serialise did not reproduce the input. Fails before the fix, passes
// after. (The same test for modules/l4wireguard is c18_wireguard_initiation_test.go.)
package l4rdp

import (
	"bytes"
	"testing"
)

func TestFindingFixedSizeParsersRejectOverlongInput(t *testing.T) {
	type codec interface {
		FromBytes([]byte) error
		ToBytes() ([]byte, error)
	}
	for name, c := range map[string]struct {
		c    codec
		size int
	}{
		"TPKTHeader":  {&TPKTHeader{}, int(TPKTHeaderBytesTotal)},
		"X224Crq":     {&X224Crq{}, int(X224CrqBytesTotal)},
		"RDPNegReq":   {&RDPNegReq{}, int(RDPNegReqBytesTotal)},
		"RDPCorrInfo": {&RDPCorrInfo{}, int(RDPCorrInfoBytesTotal)},
	} {
		src := bytes.Repeat([]byte{0x41}, c.size+1)
		if err := c.c.FromBytes(src); err != nil {
			continue // rejected: fine
		}
		out, _ := c.c.ToBytes()
		if !bytes.Equal(out, src) {
			t.Errorf("%s: accepted %d bytes, serialises to %d bytes", name, len(src), len(out))
		}
	}
}
