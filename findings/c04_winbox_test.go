// Demonstrations of two C04 defects in modules/l4winbox found by the obligations
// (*MessageAuth).FromBytes/index#1 and (*MessageAuth).FromChunks/slice#2 (both panicked before the
// fix commits, both pass after). Run from /repo with:
//   go test -overlay <(overlay placing this file at modules/l4winbox/zz_finding_test.go) ./modules/l4winbox -run TestFinding
package l4winbox

import (
	"bytes"
	"net"
	"testing"

	"github.com/mholt/caddy-l4/layer4"
	"go.uber.org/zap"
)

func matchBytes(t *testing.T, in []byte) (matched bool, err error, panicked interface{}) {
	t.Helper()
	c1, c2 := net.Pipe()
	defer c1.Close()
	defer c2.Close()
	cx := layer4.WrapConnection(c1, in, zap.NewNop())
	m := &MatchWinbox{}
	defer func() { panicked = recover() }()
	matched, err = layer4.MatcherSet{m}.Match(cx)
	return
}

// A first chunk that is full (length byte 255) and nothing after it: 257 bytes. FromBytes computed
// two chunks and indexed src[257].
func TestFindingWinboxFullFirstChunk(t *testing.T) {
	in := append([]byte{0xff, 0x06}, bytes.Repeat([]byte{'a'}, 255)...)
	if _, _, p := matchBytes(t, in); p != nil {
		t.Fatalf("matcher panicked: %v", p)
	}
}

// The delimiter is the last byte of the message: FromChunks sliced src[i+1:len(src)-1] with
// i+1 > len(src)-1.
func TestFindingWinboxDelimiterLast(t *testing.T) {
	in := append([]byte{35, 0x06}, bytes.Repeat([]byte{'a'}, 34)...)
	in = append(in, 0x00)
	if _, _, p := matchBytes(t, in); p != nil {
		t.Fatalf("matcher panicked: %v", p)
	}
}
