package l4proxy

// Demonstrations of the selection-policy defects repaired by the "fix:" commit on
// modules/l4proxy/loadbalancing.go (copy into modules/l4proxy/ to run). Each test fails on the
// pre-fix code and passes on the repaired code.

import (
	"hash/fnv"
	"strconv"
	"testing"
)

func up(dial string, conns int32, unhealthy int32) *Upstream {
	return &Upstream{Dial: []string{dial}, peers: []*peer{{numConns: conns, unhealthy: unhealthy}}}
}

// random_choose: a nil slot of the sample reached leastConns -> nil pointer dereference.
func TestFindingRandomChooseNilSlot(t *testing.T) {
	pool := UpstreamPool{up("a:1", 0, 1), up("b:1", 1, 0)}
	r := &RandomChoiceSelection{Choose: 2}
	for i := 0; i < 200; i++ {
		func() {
			defer func() {
				if e := recover(); e != nil {
					t.Fatalf("panic: %v", e)
				}
			}()
			if got := r.Select(pool, nil); got != pool[1] {
				t.Fatalf("got %v, want the only available upstream", got)
			}
		}()
	}
}

// leastConns: returned nil when every candidate had at least one connection.
func TestFindingLeastConnsAllBusy(t *testing.T) {
	a, b := up("a:1", 2, 0), up("b:1", 1, 0)
	if got := leastConns([]*Upstream{a, b}); got != b {
		t.Fatalf("got %v, want b (fewest connections)", got)
	}
}

// random_choose: sampling over pool indices (not over the available upstreams) could leave the
// sample empty although an upstream is available.
func TestFindingRandomChooseMissesAvailable(t *testing.T) {
	pool := UpstreamPool{up("a:1", 0, 1), up("b:1", 0, 1), up("c:1", 0, 1), up("d:1", 0, 1), up("e:1", 0, 0)}
	r := &RandomChoiceSelection{Choose: 2}
	for i := 0; i < 200; i++ {
		if got := r.Select(pool, nil); got != pool[4] {
			t.Fatalf("iteration %d: got %v, want the only available upstream", i, got)
		}
	}
}

// ip_hash: an upstream whose hash is 0 could never be chosen (highestHash starts at 0 and the
// comparison is strict), so a pool whose only available upstream hashes to 0 yields nil.
func TestFindingHostByHashingZeroHash(t *testing.T) {
	// search a client key such that fnv32a("a:1"+key) == 0
	key := ""
	for i := 0; i < 1<<33; i++ {
		k := strconv.FormatInt(int64(i), 36)
		h := fnv.New32a()
		_, _ = h.Write([]byte("a:1" + k))
		if h.Sum32() == 0 {
			key = k
			break
		}
	}
	if key == "" {
		t.Skip("no zero preimage found in the search range")
	}
	pool := []*Upstream{up("a:1", 0, 0)}
	if got := hostByHashing(pool, key); got != pool[0] {
		t.Fatalf("got %v for key %q, want the only available upstream", got, key)
	}
}
