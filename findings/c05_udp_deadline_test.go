// Demonstration of a C05 defect in layer4/server.go (packetConn): the read deadline was stored in
// whole seconds, so a deadline that lies later in the current wall-clock second counted as already
// exceeded and Read gave up (os.ErrDeadlineExceeded) although a datagram was waiting: matching on UDP
// could be abandoned up to one second before the matching timeout. Found by replay in phase 1 (the
// UDP connection type is not under contract; no obligation states this), fails before the fix commit
// and passes after it.
package layer4

import (
	"errors"
	"net"
	"os"
	"testing"
	"time"
)

func TestFindingUDPDeadlineNotTruncatedToSeconds(t *testing.T) {
	// get into the first 400 ms of a wall-clock second, so that now+500ms is in the same second
	for time.Now().Nanosecond() > 400_000_000 || time.Now().Nanosecond() < 50_000_000 {
		time.Sleep(10 * time.Millisecond)
	}
	pc := &packetConn{
		addr:    &net.UDPAddr{IP: net.IPv4(127, 0, 0, 1), Port: 9},
		readCh:  make(chan *packet, 1),
		closeCh: make(chan string, 1),
	}
	if err := pc.SetReadDeadline(time.Now().Add(500 * time.Millisecond)); err != nil {
		t.Fatal(err)
	}
	buf := udpBufPool.Get().([]byte)
	copy(buf, "hello")
	pc.readCh <- &packet{pooledBuf: buf, n: 5}
	b := make([]byte, 16)
	n, err := pc.Read(b)
	if errors.Is(err, os.ErrDeadlineExceeded) {
		t.Fatalf("Read gave up %v before its deadline with a datagram waiting", 500*time.Millisecond)
	}
	if err != nil || string(b[:n]) != "hello" {
		t.Fatalf("Read = %q, %v", b[:n], err)
	}
}
