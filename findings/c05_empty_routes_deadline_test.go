package layer4

// Demonstration of the defect repaired by the "fix:" commit on layer4/routes.go (copy into layer4/
// to run): with an empty route list (an empty subroute, a listener wrapper without routes) the
// fallback handler received the connection with the matching deadline still armed, so a handler
// that reads longer than matching_timeout was cut off. Fails before the fix, passes after.

import (
	"net"
	"testing"
	"time"

	"go.uber.org/zap"
)

type deadlineRecorder struct {
	net.Conn
	last time.Time
}

func (d *deadlineRecorder) SetReadDeadline(t time.Time) error { d.last = t; return nil }

func TestFindingEmptyRouteListKeepsDeadline(t *testing.T) {
	c1, c2 := net.Pipe()
	defer c1.Close()
	defer c2.Close()
	rec := &deadlineRecorder{Conn: c1}
	cx := WrapConnection(rec, []byte{}, zap.NewNop())
	var seen time.Time
	next := HandlerFunc(func(cx *Connection) error { seen = rec.last; return nil })
	if err := (RouteList{}).Compile(zap.NewNop(), 50*time.Millisecond, next).Handle(cx); err != nil {
		t.Fatal(err)
	}
	if !seen.IsZero() {
		t.Fatalf("fallback handler ran with the matching deadline still armed (%v)", seen)
	}
}
