// Demonstration of the C01 defect in modules/l4tee (obligation (*Handler).Handle/
// pre:(layer4.Handler).Handle: the connection handed on is not well-formed): the handler copied the
// Connection struct, buffer included, and made the copy read from the original, so bytes that were
// still buffered when tee ran were delivered twice.
package l4tee

import (
	"io"
	"net"
	"testing"

	"github.com/mholt/caddy-l4/layer4"
	"go.uber.org/zap"
)

func TestFindingTeeDuplicatesBufferedBytes(t *testing.T) {
	c1, c2 := net.Pipe()
	defer c1.Close()
	go func() {
		c2.Write([]byte("WORLD"))
		c2.Close()
	}()
	cx := layer4.WrapConnection(c1, []byte("HELLO"), zap.NewNop())
	branch := make(chan string, 1)
	h := &Handler{logger: zap.NewNop(), compiledChain: layer4.HandlerFunc(func(c *layer4.Connection) error {
		b, _ := io.ReadAll(c)
		branch <- string(b)
		return nil
	})}
	var got []byte
	err := h.Handle(cx, layer4.HandlerFunc(func(c *layer4.Connection) error {
		got, _ = io.ReadAll(c)
		return nil
	}))
	if err != nil {
		t.Fatal(err)
	}
	if string(got) != "HELLOWORLD" {
		t.Fatalf("next handler read %q, want %q", got, "HELLOWORLD")
	}
	if b := <-branch; b != "HELLOWORLD" {
		t.Fatalf("branch read %q, want %q", b, "HELLOWORLD")
	}
}
