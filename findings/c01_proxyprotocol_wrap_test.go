// Demonstration of the C01/C12 defect at modules/l4proxyprotocol/handler.go `next.Handle(cx.Wrap(conn))`
// (obligation (*Handler).Handle/pre:(layer4.Handler).Handle: the connection handed on is not
// well-formed): with more than 4096 bytes buffered when the handler runs, the PROXY parser's
// bufio.Reader takes the first 4096, the rest stays in the layer4 buffer, and Wrap copied that
// buffer into the new connection, which therefore served the *later* bytes first.
package l4proxyprotocol

import (
	"bytes"
	"io"
	"net"
	"testing"

	"github.com/mholt/caddy-l4/layer4"
	"go.uber.org/zap"
)

func TestFindingProxyProtocolStreamOrder(t *testing.T) {
	header := []byte("PROXY TCP4 192.168.0.1 192.168.0.11 56324 443\r\n")
	payload := make([]byte, 6000)
	for i := range payload {
		payload[i] = byte('a' + i%26)
	}
	c1, c2 := net.Pipe()
	defer c1.Close()
	go func() { c2.Close() }() // nothing more comes from the client
	cx := layer4.WrapConnection(c1, append(append([]byte{}, header...), payload...), zap.NewNop())
	h := &Handler{logger: zap.NewNop()}
	var got []byte
	err := h.Handle(cx, layer4.HandlerFunc(func(c *layer4.Connection) error {
		got, _ = io.ReadAll(c)
		return nil
	}))
	if err != nil {
		t.Fatal(err)
	}
	if !bytes.Equal(got, payload) {
		n := 0
		for n < len(got) && n < len(payload) && got[n] == payload[n] {
			n++
		}
		t.Fatalf("next handler read %d bytes, want %d; first difference at offset %d", len(got), len(payload), n)
	}
}
