// Demonstration of the C04 defect in modules/l4rdp found by the obligation
// (*MatchRDP).Match/index#2: a connection request whose payload ends with CR (and has no earlier
// CR LF) made the CR LF scan read payloadBuf[len(payloadBuf)]. Panicked before the fix, passes after.
package l4rdp

import (
	"context"
	"net"
	"testing"

	"github.com/caddyserver/caddy/v2"
	"github.com/mholt/caddy-l4/layer4"
	"go.uber.org/zap"
)

func TestFindingRDPPayloadEndsWithCR(t *testing.T) {
	in := []byte{0x03, 0x00, 0x00, 0x0c, 0x07, 0xe0, 0x00, 0x00, 0x00, 0x00, 0x00, 0x0d}
	c1, c2 := net.Pipe()
	defer c1.Close()
	defer c2.Close()
	cx := layer4.WrapConnection(c1, in, zap.NewNop())
	ctx, cancel := caddy.NewContext(caddy.Context{Context: context.Background()})
	defer cancel()
	m := &MatchRDP{}
	if err := m.Provision(ctx); err != nil {
		t.Fatal(err)
	}
	defer func() {
		if p := recover(); p != nil {
			t.Fatalf("matcher panicked: %v", p)
		}
	}()
	_, _ = layer4.MatcherSet{m}.Match(cx)
}
