package main

import (
	"encoding/json"
	"flag"
	"fmt"
	"os"
	"os/exec"
	"path/filepath"
	"sort"
	"strconv"
	"strings"
	"time"

	"golang.org/x/tools/go/ssa"
)

type PropConfig struct {
	ID        string   `json:"id"`
	Packages  []string `json:"packages"`
	Level     string   `json:"level"`
	Trusted   []string `json:"trusted_base"`
	Notes     []string `json:"assumptions"`
	MinObls   int      `json:"min_obligations"`
	ExtraTags []string `json:"extra_tags"`
}

type KnownFinding struct {
	Property   string `json:"property"`
	Obligation string `json:"obligation"`
	Status     string `json:"status"` // known | fixed
	What       string `json:"what"`
	Input      string `json:"input,omitempty"`
	Commit     string `json:"commit,omitempty"`
}

type oblReport struct {
	Name    string   `json:"name"`
	Kind    string   `json:"kind"`
	Pos     string   `json:"pos,omitempty"`
	Desc    string   `json:"desc,omitempty"`
	Verdict string   `json:"verdict"`
	Solver  string   `json:"solver,omitempty"`
	Seconds float64  `json:"seconds"`
	Tags    []string `json:"tags,omitempty"`
}

func loadJSON(path string, v interface{}) error {
	data, err := os.ReadFile(path)
	if err != nil {
		return err
	}
	return json.Unmarshal(data, v)
}

func hasTag(tags []string, want map[string]bool) bool {
	for _, t := range tags {
		if want[t] {
			return true
		}
	}
	return false
}

func cmdCheck(args []string) {
	fs := flag.NewFlagSet("check", flag.ExitOnError)
	repo := fs.String("repo", "/repo", "repository")
	tier := fs.String("tier", "", "quick | thorough")
	noReplay := fs.Bool("no-replay", false, "skip replays")
	verbose := fs.Bool("v", false, "verbose")
	// accept flags before or after the property id, with one or two dashes
	var flags, pos []string
	for i := 0; i < len(args); i++ {
		a := args[i]
		if strings.HasPrefix(a, "-") {
			flags = append(flags, a)
			if (a == "-tier" || a == "--tier" || a == "-repo" || a == "--repo") && i+1 < len(args) {
				i++
				flags = append(flags, args[i])
			}
		} else {
			pos = append(pos, a)
		}
	}
	fs.Parse(flags)
	if len(pos) != 1 {
		usage()
	}
	prop := pos[0]
	if *tier == "" {
		*tier = os.Getenv("VERIF_TIER")
	}
	if *tier != "thorough" {
		*tier = "quick"
	}
	seed, _ := strconv.Atoi(os.Getenv("VERIF_SEED"))
	root := verifRoot()
	t0 := time.Now()
	var props map[string]*PropConfig
	if err := loadJSON(filepath.Join(root, "props.json"), &props); err != nil {
		fmt.Fprintln(os.Stderr, "props.json:", err)
		os.Exit(2)
	}
	pc, ok := props[prop]
	if !ok {
		fmt.Fprintln(os.Stderr, "unknown property", prop)
		os.Exit(2)
	}
	pc.ID = prop
	var known []KnownFinding
	loadJSON(filepath.Join(root, "known_findings.json"), &known)

	before := gitStatus(*repo)
	P, err := loadProg(*repo, pc.Packages, []string{filepath.Join(root, "contracts")})
	if err != nil {
		// the tree does not load: nothing can be established
		fmt.Fprintln(os.Stderr, "load error:", err)
		writeEngineFault(root, pc, *tier, seed, t0, "packages do not load: "+err.Error())
		os.Exit(2)
	}
	want := map[string]bool{prop: true}
	if *tier == "thorough" {
		// clauses tagged Cxx@thorough are obligations of the thorough tier only (slow queries)
		want[prop+"@thorough"] = true
	}
	for _, t := range pc.ExtraTags {
		want[t] = true
	}

	type fnJob struct {
		ct *Contract
		fn *ssa.Function
	}
	var jobs []fnJob
	var violations []string // lines
	var engineFaults []string
	var keys []string
	for k := range P.cs.ByKey {
		keys = append(keys, k)
	}
	sort.Strings(keys)
	bindFail := func(what string) {
		path := writeReplayFile(root, prop, "contract-binding", map[string]interface{}{"obligation": "contract-binding", "reason": what})
		violations = append(violations, fmt.Sprintf("VIOLATION property=%s replay=%s obligation=contract-binding (%s) no-failing-input-found", prop, path, what))
	}
	for _, e := range P.cs.Errors {
		engineFaults = append(engineFaults, "contract file error: "+e)
	}
	for _, k := range keys {
		ct := P.cs.ByKey[k]
		tagged := hasTag(ct.Safety, want) || hasTag(ct.AssignsTags, want) || hasTag(ct.ImplTags, want)
		for _, cl := range ct.Clauses {
			if hasTag(cl.Tags, want) {
				tagged = true
			}
		}
		if !tagged {
			continue
		}
		fn := P.funcs[k]
		if fn == nil {
			if strings.Contains(k, "(") && isInterfaceKey(P, k) {
				continue // interface method contract: used at call sites only
			}
			bindFail("contract for " + k + " binds to no function")
			continue
		}
		if fn.Blocks == nil {
			continue
		}
		jobs = append(jobs, fnJob{ct, fn})
	}

	var all []*Obligation
	var reports []oblReport
	var funcs []string
	assumptions := map[string]bool{}
	notes := map[string]bool{}
	inlined := map[string]bool{}
	unchecked := map[string]bool{}
	usedCts := map[string]bool{}
	covers := 0
	loops := 0
	var candReport []string
	solverSeconds := 0.0
	bySolver := map[string]int{}
	for _, j := range jobs {
		if os.Getenv("GVC_DEBUG") != "" {
			fmt.Fprintf(os.Stderr, "[%.1fs] verifying %s\n", time.Since(t0).Seconds(), j.fn.String())
		}
		res := P.verifyFunction(j.fn, nil)
		funcs = append(funcs, res.Fn)
		if res.Engine != "" {
			engineFaults = append(engineFaults, res.Engine)
			continue
		}
		for _, be := range res.BindErrors {
			bindFail(res.Fn + ": " + be)
		}
		res.runHoudini(*tier)
		var mine []*Obligation
		for _, o := range res.Obls {
			if hasTag(o.Tags, want) {
				mine = append(mine, o)
			}
		}
		solveAll(mine, res.Candidates, *tier, false)
		solveAll(res.Covers, res.Candidates, *tier, true)
		for _, c := range res.Covers {
			covers++
			if c.Verdict == "unsat" && !c.Soft && (c.Pair == nil || c.Pair.Verdict == "sat") {
				engineFaults = append(engineFaults, "vacuity: "+c.Name+" is unsatisfiable ("+c.Desc+")")
			}
		}
		for _, c := range res.Candidates {
			if !c.Auto {
				candReport = append(candReport, fmt.Sprintf("%s: %s: %v", c.Loop, c.Src, map[bool]string{true: "inductive", false: "dropped"}[c.Alive]))
			}
		}
		loops += res.Loops
		all = append(all, mine...)
		for _, n := range res.Notes {
			notes[n] = true
		}
		for _, n := range res.Inlined {
			inlined[n] = true
		}
		for _, n := range res.Unchecked {
			unchecked[n] = true
		}
		for _, n := range res.UsedCts {
			usedCts[n] = true
		}
		for _, n := range res.Assumes {
			assumptions[n] = true
		}
	}
	discharged := 0
	knownFailed := []string{}
	knownByObl := map[string]KnownFinding{}
	for _, k := range known {
		if k.Property == prop && k.Status == "known" {
			knownByObl[k.Obligation] = k
		}
	}
	var samples []interface{}
	confirmed := 0
	unconfirmed := []string{}
	for _, o := range all {
		solverSeconds += o.Seconds
		bySolver[o.Solver]++
		reports = append(reports, oblReport{o.Name, o.Kind, o.Pos, o.Desc, o.Verdict, o.Solver, o.Seconds, o.Tags})
		if o.Verdict == "unsat" {
			discharged++
			switch {
			case o.Confirm == "confirmed":
				confirmed++
			case strings.HasPrefix(o.Confirm, "CONTRADICTED"):
				engineFaults = append(engineFaults, "solvers disagree on "+o.Name+": "+o.Confirm)
			case o.Confirm == "unconfirmed":
				unconfirmed = append(unconfirmed, o.Name)
			}
			if len(samples) < 5 && o.Solver != "simplifier" {
				samples = append(samples, map[string]string{"obligation": o.Name, "at": o.Pos, "goal": o.Desc, "verdict": "discharged by " + o.Solver})
			}
			continue
		}
		// not discharged
		var rp *ReplayResult
		if !*noReplay {
			rp = P.replay(root, prop, o, *tier)
		} else {
			rp = &ReplayResult{Path: writeReplayFile(root, prop, o.Name, map[string]interface{}{"obligation": o.Name, "verdict": o.Verdict, "solver_output": firstLines(o.Model+o.Reason, 40)})}
		}
		if kf, ok := knownByObl[o.Name]; ok {
			fmt.Printf("KNOWN-FINDING: property=%s %s: %s (replay=%s reproduced=%v)\n", prop, o.Name, kf.What, rp.Path, rp.Reproduced)
			knownFailed = append(knownFailed, o.Name)
			continue
		}
		line := fmt.Sprintf("VIOLATION property=%s replay=%s obligation=%s at=%s (%s; solver: %s)", prop, rp.Path, o.Name, o.Pos, o.Desc, o.Verdict)
		if !rp.Reproduced {
			line += " no-failing-input-found"
		}
		violations = append(violations, line)
	}
	// vacuity floor
	if len(all) < pc.MinObls {
		engineFaults = append(engineFaults, fmt.Sprintf("only %d obligations generated, floor is %d", len(all), pc.MinObls))
	}
	if len(all) == 0 {
		engineFaults = append(engineFaults, "no obligations generated")
	}
	after := gitStatus(*repo)
	if before != after {
		engineFaults = append(engineFaults, "the check changed the repository's working tree")
	}
	// evidence
	sort.Strings(funcs)
	claimObls := len(all) - len(knownFailed)
	var ass []string
	ass = append(ass, pc.Notes...)
	ass = append(ass, sortedKeys(assumptions)...)
	for _, n := range sortedKeys(unchecked) {
		ass = append(ass, "unchecked callee (result and reachable state havoc'd, may panic): "+n)
	}
	for _, n := range sortedKeys(notes) {
		ass = append(ass, "abstracted: "+n)
	}
	ass = append(ass, "integers are fixed-width bit-vectors (exact); memory exhaustion and stack depth are not modelled; go/ssa is a faithful translation of the source; SMT solvers are sound")
	if len(samples) == 0 && len(all) > 0 {
		o := all[0]
		samples = append(samples, map[string]string{"obligation": o.Name, "at": o.Pos, "goal": o.Desc, "verdict": o.Verdict})
	}
	ev := map[string]interface{}{
		"property_id": prop,
		"tier":        *tier,
		"seed":        seed,
		"level":       "proof",
		"coverage": map[string]interface{}{
			"obligations":                claimObls,
			"discharged":                 discharged,
			"checker_cmd":                "bin/gvc check " + prop + " --tier " + *tier,
			"trusted_base":               append(append([]string{}, pc.Trusted...), trustedContracts(P, usedCts)...),
			"samples":                    samples,
			"functions_under_contract":   funcs,
			"functions_inlined":          sortedKeys(inlined),
			"contracts_used_at_calls":    sortedKeys(usedCts),
			"loops_cut":                  loops,
			"loop_invariant_candidates":  candReport,
			"vacuity_covers_checked":     covers,
			"known_findings_failed":      knownFailed,
			"solver_seconds_total":       solverSeconds,
			"discharged_by":              bySolver,
			"second_solver":              secondSolverReport(*tier, confirmed, unconfirmed),
			"obligation_list":            reports,
			"engine_faults":              engineFaults,
			"contract_files":             relFiles(P.cs.Files),
		},
		"assumptions": ass,
		"wall_s":      time.Since(t0).Seconds(),
		"violations":  len(violations),
	}
	os.MkdirAll(filepath.Join(root, "evidence"), 0o755)
	data, _ := json.MarshalIndent(ev, "", " ")
	os.WriteFile(filepath.Join(root, "evidence", prop+".json"), data, 0o644)

	if *verbose {
		for _, r := range reports {
			fmt.Printf("  %-8s %-70s %s %s %.2fs\n", r.Verdict, r.Name, r.Pos, r.Solver, r.Seconds)
		}
	}
	fmt.Printf("%s: %d functions under contract, %d obligations, %d discharged, %d known findings, %d violations, %.1fs\n", prop, len(funcs), len(all), discharged, len(knownFailed), len(violations), time.Since(t0).Seconds())
	for _, e := range engineFaults {
		fmt.Println("ENGINE-FAULT:", e)
	}
	for _, v := range violations {
		fmt.Println(v)
	}
	if len(violations) > 0 {
		os.Exit(1)
	}
	if len(engineFaults) > 0 {
		os.Exit(2)
	}
}

func isInterfaceKey(P *Prog, k string) bool {
	// "(pkg.Iface).Method"
	i := strings.Index(k, ").")
	if !strings.HasPrefix(k, "(") || i < 0 {
		return false
	}
	tn := strings.TrimPrefix(k[1:i], "*")
	j := strings.LastIndex(tn, ".")
	if j < 0 {
		return false
	}
	tp := P.findPkg(tn[:j])
	if tp == nil {
		return false
	}
	o := tp.Scope().Lookup(tn[j+1:])
	if o == nil {
		return false
	}
	_, isI := o.Type().Underlying().(interface{ NumMethods() int })
	return isI
}

func trustedContracts(P *Prog, used map[string]bool) []string {
	var out []string
	for _, k := range sortedKeys(used) {
		if c, ok := P.cs.ByKey[k]; ok && c.Trusted {
			out = append(out, "assumed contract: "+k)
		}
	}
	return out
}

func relFiles(fs []string) []string {
	var out []string
	for _, f := range fs {
		out = append(out, f)
	}
	sort.Strings(out)
	return out
}

func gitStatus(repo string) string {
	out, _ := exec.Command("git", "-C", repo, "status", "--porcelain").Output()
	return string(out)
}

func secondSolverReport(tier string, confirmed int, unconfirmed []string) interface{} {
	if tier != "thorough" {
		return "not run in the quick tier"
	}
	return map[string]interface{}{
		"what":        "every discharged obligation was decided again by a solver of a different family (10 s per query, 120 s per function, 300 s per check; what is not confirmed in that time is listed, it is not an alarm)",
		"confirmed":   confirmed,
		"unconfirmed": unconfirmed,
	}
}

func writeEngineFault(root string, pc *PropConfig, tier string, seed int, t0 time.Time, msg string) {
	ev := map[string]interface{}{
		"property_id": pc.ID, "tier": tier, "seed": seed, "level": "other",
		"coverage":    map[string]interface{}{"explanation": "engine fault, nothing established: " + msg},
		"assumptions": []string{}, "wall_s": time.Since(t0).Seconds(), "violations": 0,
	}
	os.MkdirAll(filepath.Join(root, "evidence"), 0o755)
	data, _ := json.MarshalIndent(ev, "", " ")
	os.WriteFile(filepath.Join(root, "evidence", pc.ID+".json"), data, 0o644)
	fmt.Println("ENGINE-FAULT:", msg)
}

func writeReplayFile(root, prop, obl string, content map[string]interface{}) string {
	dir := filepath.Join(root, "replays", prop)
	os.MkdirAll(dir, 0o755)
	name := sanitizeFile(obl)
	path := filepath.Join(dir, name+".json")
	content["property"] = prop
	data, _ := json.MarshalIndent(content, "", " ")
	os.WriteFile(path, data, 0o644)
	return path
}

func sanitizeFile(s string) string {
	var sb strings.Builder
	for _, c := range s {
		switch {
		case c >= 'a' && c <= 'z', c >= 'A' && c <= 'Z', c >= '0' && c <= '9', c == '.', c == '-', c == '_':
			sb.WriteRune(c)
		default:
			sb.WriteByte('_')
		}
	}
	r := sb.String()
	if len(r) > 150 {
		r = r[:150]
	}
	return r
}
