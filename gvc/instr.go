package main

import (
	"fmt"
	"go/token"
	"go/types"
	"math/big"
	"strings"

	"golang.org/x/tools/go/ssa"
)

type bigIntT = big.Int

var aviewElem = map[string]types.Type{}

type houdiniObl struct {
	o *Obligation
	c *Candidate
}

// instr executes one instruction; returns the updated path condition.
func (ex *Exec) instr(fr *Frame, in ssa.Instruction, st *State, pc *Term) *Term {
	switch x := in.(type) {
	case *ssa.DebugRef:
		return pc
	case *ssa.Alloc:
		et := x.Type().(*types.Pointer).Elem()
		r := ex.alloc(st, x.Comment)
		ex.storeAt(st, et, r, zeroVal(et))
		fr.vals[x] = r
		if !aggregate(et) && !allocEscapes(x) {
			// a local cell whose address never leaves this function (it may be captured by closures,
			// whose invocations are modelled separately): no callee can write it behind our back
			for _, l := range leaves(et) {
				n, _ := cellComp(et, l)
				ex.localCells[n] = append(ex.localCells[n], r)
			}
		}
	case *ssa.BinOp:
		fr.vals[x] = ex.binop(fr, x, st, &pc)
	case *ssa.UnOp:
		fr.vals[x] = ex.unop(fr, x, st, &pc)
	case *ssa.Convert:
		fr.vals[x] = ex.convert(fr, x, st)
	case *ssa.ChangeType:
		fr.vals[x] = ex.val(fr, x.X)
	case *ssa.ChangeInterface:
		fr.vals[x] = ex.val(fr, x.X)
	case *ssa.MakeInterface:
		v := ex.val(fr, x.X)
		fr.vals[x] = &IfaceV{Tag: typeTag(x.X.Type()), Data: box(x.X.Type(), v)}
	case *ssa.TypeAssert:
		fr.vals[x] = ex.typeAssert(fr, x, st, &pc)
	case *ssa.Extract:
		tv := ex.val(fr, x.Tuple).(TupleV)
		fr.vals[x] = tv[x.Index]
	case *ssa.Field:
		sv := ex.val(fr, x.X).(*StructV)
		fr.vals[x] = sv.F[x.Field]
	case *ssa.FieldAddr:
		base := ex.term(fr, x.X)
		ex.safety(fr, "nil", x.Pos(), pc, Neq(base, Null), "nil dereference in field access")
		pc = And(pc, Neq(base, Null))
		owner := x.X.Type().Underlying().(*types.Pointer).Elem()
		fr.vals[x] = fieldPtr(owner, x.Field, base)
	case *ssa.IndexAddr:
		idx := Resize(ex.term(fr, x.Index), 64, isSigned(x.Index.Type()))
		switch u := under(x.X.Type()).(type) {
		case *types.Slice:
			sv := ex.val(fr, x.X).(*SliceV)
			g := BVCmp("bvult", idx, sv.Len)
			ex.safety(fr, "index", x.Pos(), pc, g, "index out of range")
			pc = And(pc, g)
			fr.vals[x] = elemPtr(u.Elem(), sv.Arr, BVOp("bvadd", sv.Off, idx))
		case *types.Pointer:
			at := under(u.Elem()).(*types.Array)
			base := ex.term(fr, x.X)
			g := BVCmp("bvult", idx, BVu(uint64(at.Len()), 64))
			if base.op == "app" && strings.HasPrefix(base.name, "aview$") {
				ex.safety(fr, "index", x.Pos(), pc, g, "index out of range")
				pc = And(pc, g)
				fr.vals[x] = elemPtr(at.Elem(), base.args[0], BVOp("bvadd", base.args[1], idx))
				break
			}
			ex.safety(fr, "nil", x.Pos(), pc, Neq(base, Null), "nil array pointer")
			ex.safety(fr, "index", x.Pos(), pc, g, "index out of range")
			pc = And(pc, g, Neq(base, Null))
			fr.vals[x] = elemPtr(at.Elem(), base, idx)
		default:
			ex.unsupported("IndexAddr on " + x.X.Type().String())
			fr.vals[x] = Fresh("ptr", SRef)
		}
	case *ssa.Index:
		idx := Resize(ex.term(fr, x.Index), 64, isSigned(x.Index.Type()))
		switch u := under(x.X.Type()).(type) {
		case *types.Array:
			av := ex.val(fr, x.X).(*ArrV)
			g := BVCmp("bvult", idx, BVu(uint64(u.Len()), 64))
			ex.safety(fr, "index", x.Pos(), pc, g, "index out of range")
			pc = And(pc, g)
			ts := make([]*Term, len(av.A))
			for i, a := range av.A {
				ts[i] = Select(a, idx)
			}
			fr.vals[x] = unflat(u.Elem(), ts)
		default:
			if isString(x.X.Type()) {
				sv := ex.val(fr, x.X).(*SliceV)
				g := BVCmp("bvult", idx, sv.Len)
				ex.safety(fr, "index", x.Pos(), pc, g, "string index out of range")
				pc = And(pc, g)
				fr.vals[x] = ex.strByte(sv, idx)
			} else {
				ex.unsupported("Index on " + x.X.Type().String())
				fr.vals[x] = freshVal("idx", x.Type())
			}
		}
	case *ssa.Lookup:
		fr.vals[x] = ex.lookup(fr, x, st, &pc)
	case *ssa.Slice:
		fr.vals[x] = ex.sliceOp(fr, x, st, &pc)
	case *ssa.MakeSlice:
		n := Resize(ex.term(fr, x.Len), 64, isSigned(x.Len.Type()))
		c := Resize(ex.term(fr, x.Cap), 64, isSigned(x.Cap.Type()))
		et := under(x.Type()).(*types.Slice).Elem()
		g := And(BVCmp("bvsle", BVu(0, 64), n), BVCmp("bvsle", n, c))
		ex.safety(fr, "makeslice", x.Pos(), pc, g, "makeslice: len out of range")
		pc = And(pc, g)
		esz := ex.P.sizeof(et)
		limit := uint64(ex.P.allocLimit) / uint64(maxi(esz, 1))
		ex.addObl(fr, "alloc", x.Pos(), pc, BVCmp("bvule", c, BVu(limit, 64)), fmt.Sprintf("allocation of at most %d bytes", ex.P.allocLimit), ex.allocTags(), nil)
		pc = And(pc, BVCmp("bvsle", c, BVu(1<<40, 64)))
		r := ex.alloc(st, "makeslice")
		ex.zeroElems(st, et, r)
		fr.vals[x] = &SliceV{Arr: r, Off: BVu(0, 64), Len: n, Cap: c}
	case *ssa.MakeMap:
		r := ex.alloc(st, "map")
		ex.mapInit(st, x.Type(), r)
		fr.vals[x] = r
	case *ssa.MakeChan:
		fr.vals[x] = ex.alloc(st, "chan")
	case *ssa.MakeClosure:
		fn := x.Fn.(*ssa.Function)
		fv := &FuncV{Fn: fn}
		for _, b := range x.Bindings {
			fv.Bind = append(fv.Bind, ex.val(fr, b))
		}
		fr.vals[x] = fv
		if fn.Blocks != nil && fn.Synthetic == "" && len(fv.Bind) > 0 && !onlyDeferred(x) {
			fr.closures = append(fr.closures, fv)
		}
	case *ssa.MapUpdate:
		ex.mapUpdate(fr, x, st, &pc)
	case *ssa.Store:
		p := ex.term(fr, x.Addr)
		et := x.Addr.Type().Underlying().(*types.Pointer).Elem()
		ex.derefCheck(fr, x.Addr, p, x.Pos(), &pc)
		ex.storePtr(st, et, p, ex.val(fr, x.Val))
	case *ssa.Phi:
		// handled by run
	case *ssa.Call:
		rv, npc := ex.call(fr, x, &x.Call, st, pc)
		pc = npc
		fr.vals[x] = rv
	case *ssa.Defer:
		k := fmt.Sprintf("defer:%p:%d", fr, len(fr.defers))
		fr.defers = append(fr.defers, x)
		st.extyp[k] = types.Typ[types.Bool]
		st.extra[k] = True
		ex.noteExtra(k)
		// capture arguments at defer time
		for i, a := range x.Call.Args {
			ak := fmt.Sprintf("%s:arg%d", k, i)
			st.extyp[ak] = a.Type()
			st.extra[ak] = ex.val(fr, a)
			ex.noteExtra(ak)
		}
		if _, isB := x.Call.Value.(*ssa.Builtin); isB {
			fr.deferFns = append(fr.deferFns, nil)
		} else {
			fr.deferFns = append(fr.deferFns, ex.val(fr, x.Call.Value))
		}
	case *ssa.RunDefers:
		pc = ex.runDefers(fr, st, pc)
	case *ssa.Go:
		ex.goStmt(fr, x, st, pc)
	case *ssa.Send:
		// a send is a ghost event: the channel's send counter goes up by one (no blocking semantics)
		ch := ex.term(fr, x.Chan)
		g := Neq(ch, Null)
		pc = And(pc, g)
		n, srt := "ghost:sends", ArrSort(SRef, BV(64))
		c := ex.get(st, n, srt)
		ex.setAt(st, n, Store(c, ch, BVOp("bvadd", Select(c, ch), BVu(1, 64))), ch)
		// for channels of interface values the value sent last is kept as well (ghost lastsent)
		if ct, ok := under(x.Chan.Type()).(*types.Chan); ok && types.IsInterface(ct.Elem()) {
			if iv, ok := ex.val(fr, x.X).(*IfaceV); ok {
				for k, l := range leaves(ct.Elem()) {
					cn, cs := "ghost:lastsent"+l.path, ArrSort(SRef, l.sort)
					ex.setAt(st, cn, Store(ex.get(st, cn, cs), ch, flat(iv)[k]), ch)
				}
			}
		}
		ex.unsupported("channel send modelled as a ghost counter (no blocking, no ordering)")
	case *ssa.Select:
		ex.unsupported("select statement abstracted (nondeterministic choice)")
		fr.vals[x] = freshVal("select", x.Type())
		// index is within the number of states (or -1 when non-blocking)
		tv := fr.vals[x].(TupleV)
		idx := tv[0].(*Term)
		lo := int64(0)
		if !x.Blocking {
			lo = -1
		}
		pc = And(pc, BVCmp("bvsle", BVi(lo, 64), idx), BVCmp("bvslt", idx, BVi(int64(len(x.States)), 64)))
	case *ssa.Range:
		fr.vals[x] = ex.rangeInit(fr, x, st)
	case *ssa.Next:
		fr.vals[x] = ex.rangeNext(fr, x, st, &pc)
	case *ssa.SliceToArrayPointer:
		sv := ex.val(fr, x.X).(*SliceV)
		at := under(x.Type().(*types.Pointer).Elem()).(*types.Array)
		g := BVCmp("bvsle", BVu(uint64(at.Len()), 64), sv.Len)
		ex.safety(fr, "slice", x.Pos(), pc, g, "slice to array pointer: too short")
		pc = And(pc, g)
		if sv.Off != BVu(0, 64) {
			// a view into the middle of an array: decoded again by loadAt / IndexAddr
			fr.vals[x] = App("aview$"+sanitize(storageKey(at.Elem())), SRef, sv.Arr, sv.Off)
			aviewElem[sanitize("aview$"+sanitize(storageKey(at.Elem())))] = at.Elem()
		} else {
			fr.vals[x] = sv.Arr
		}
	case *ssa.If:
		c := ex.term(fr, x.Cond)
		b := x.Block()
		ex.setEdge(fr, b, 0, And(pc, c), st, And(fr.guard, c))
		ex.setEdge(fr, b, 1, And(pc, Not(c)), st, And(fr.guard, Not(c)))
	case *ssa.Jump:
		ex.setEdge(fr, x.Block(), 0, pc, st, fr.guard)
	case *ssa.Return:
		var vals []Val
		for _, r := range x.Results {
			vals = append(vals, ex.val(fr, r))
		}
		fr.rets = append(fr.rets, retEdge{pc, st, vals, fr.guard})
		if fr.root {
			ex.checkPost(fr, x, st, pc, vals)
		}
	case *ssa.Panic:
		ex.safety(fr, "panic", x.Pos(), pc, False, "explicit panic reachable")
		return False
	default:
		ex.unsupported(fmt.Sprintf("instruction %T", in))
		if v, ok := in.(ssa.Value); ok {
			fr.vals[v] = freshVal("unsup", v.Type())
		}
	}
	return pc
}

func maxi(a, b int64) int64 {
	if a > b {
		return a
	}
	return b
}

// allocTags: the allocation bound is part of C04 only (other properties' safety clauses are
// about panics).
func (ex *Exec) allocTags() []string {
	for _, t := range ex.safetyTags {
		if t == "C04" || t == "safety" {
			return []string{t}
		}
	}
	return nil
}

func isSigned(t types.Type) bool {
	_, s, _ := intInfo(t)
	return s
}

func (ex *Exec) zeroElems(st *State, et types.Type, r *Term) {
	if aggregate(et) {
		// struct elements: zero lazily is not possible; leave unconstrained but note it
		ex.unsupported("zero-initialisation of aggregate elements not modelled")
		return
	}
	for _, l := range leaves(et) {
		n, s := elemComp(et, l)
		_, inner := arrParts(s)
		ex.setAt(st, n, Store(ex.get(st, n, s), r, zeroOfSort(inner)), r)
	}
}

// derefCheck emits the nil-dereference obligation for loads/stores through opaque pointers.
func (ex *Exec) derefCheck(fr *Frame, pv ssa.Value, p *Term, pos token.Pos, pc **Term) {
	if p.op == "app" && (strings.HasPrefix(p.name, "fld$") || strings.HasPrefix(p.name, "elem$") || strings.HasPrefix(p.name, "glob$") || strings.HasPrefix(p.name, "sub$") || strings.HasPrefix(p.name, "elemref$") || strings.HasPrefix(p.name, "aview$")) {
		return
	}
	if p.op == "var" && strings.HasPrefix(p.name, "obj$") {
		return
	}
	if _, isAlloc := pv.(*ssa.Alloc); isAlloc {
		return
	}
	if _, isFV := pv.(*ssa.FreeVar); isFV {
		return
	}
	g := Neq(p, Null)
	ex.safety(fr, "nil", pos, *pc, g, "nil pointer dereference")
	*pc = And(*pc, g)
}

func (ex *Exec) unop(fr *Frame, x *ssa.UnOp, st *State, pc **Term) Val {
	switch x.Op {
	case token.MUL:
		p := ex.term(fr, x.X)
		ex.derefCheck(fr, x.X, p, x.Pos(), pc)
		return ex.loadPtr(st, x.Type(), p)
	case token.NOT:
		return Not(ex.term(fr, x.X))
	case token.SUB:
		if isFloat(x.Type()) {
			return App("float$neg", SFloat, ex.term(fr, x.X))
		}
		return BVNeg(ex.term(fr, x.X))
	case token.XOR:
		return BVNot(ex.term(fr, x.X))
	case token.ARROW:
		ex.ghostEvent(fr, "recv", x.Pos(), st, *pc)
		v := freshVal("recv", x.Type())
		*pc = And(*pc, ex.wfVal(x.Type(), v, st.now))
		return v
	}
	ex.unsupported("unary " + x.Op.String())
	return freshVal("unop", x.Type())
}



func (ex *Exec) binop(fr *Frame, x *ssa.BinOp, st *State, pc **Term) Val {
	xt := x.X.Type()
	a, b := ex.val(fr, x.X), ex.val(fr, x.Y)
	return ex.binopVals(fr, x.Op, xt, x.Y.Type(), x.Type(), a, b, x.Pos(), st, pc)
}

func (ex *Exec) binopVals(fr *Frame, op token.Token, xt, yt, rt types.Type, a, b Val, pos token.Pos, st *State, pc **Term) Val {
	// comparisons of non-scalars
	switch op {
	case token.EQL, token.NEQ:
		e := ex.valEq(xt, a, b)
		if op == token.NEQ {
			return Not(e)
		}
		return e
	}
	if isString(xt) {
		sa, sb := a.(*SliceV), b.(*SliceV)
		switch op {
		case token.ADD:
			return ex.strConcat(st, sa, sb)
		case token.LSS, token.LEQ, token.GTR, token.GEQ:
			r := App("strcmp", BV(64), Select(STR, sa.Arr), sa.Off, sa.Len, Select(STR, sb.Arr), sb.Off, sb.Len)
			z := BVu(0, 64)
			switch op {
			case token.LSS:
				return BVCmp("bvslt", r, z)
			case token.LEQ:
				return BVCmp("bvsle", r, z)
			case token.GTR:
				return BVCmp("bvsgt", r, z)
			default:
				return BVCmp("bvsge", r, z)
			}
		}
	}
	if isFloat(xt) {
		ta, tb := a.(*Term), b.(*Term)
		switch op {
		case token.LSS, token.LEQ, token.GTR, token.GEQ:
			return App("float$"+op.String(), SBool, ta, tb)
		}
		return App("float$"+op.String(), SFloat, ta, tb)
	}
	ta, tb := a.(*Term), b.(*Term)
	if ta.sort == SBool {
		switch op {
		case token.AND, token.LAND:
			return And(ta, tb)
		case token.OR, token.LOR:
			return Or(ta, tb)
		}
	}
	w, signed, ok := intInfo(xt)
	if !ok {
		ex.unsupported("binop on " + xt.String())
		return freshVal("binop", rt)
	}
	switch op {
	case token.ADD:
		return BVOp("bvadd", ta, tb)
	case token.SUB:
		return BVOp("bvsub", ta, tb)
	case token.MUL:
		return BVOp("bvmul", ta, tb)
	case token.QUO, token.REM:
		g := Neq(tb, BVu(0, w))
		if fr != nil {
			ex.safety(fr, "div", pos, *pc, g, "division by zero")
			*pc = And(*pc, g)
		}
		o := map[bool]map[token.Token]string{true: {token.QUO: "bvsdiv", token.REM: "bvsrem"}, false: {token.QUO: "bvudiv", token.REM: "bvurem"}}[signed][op]
		return BVOp(o, ta, tb)
	case token.AND:
		return BVOp("bvand", ta, tb)
	case token.OR:
		return BVOp("bvor", ta, tb)
	case token.XOR:
		return BVOp("bvxor", ta, tb)
	case token.AND_NOT:
		return BVOp("bvand", ta, BVNot(tb))
	case token.SHL, token.SHR:
		// shift count: unsigned (or signed, panics if negative) of any width
		yw, ys, _ := intInfo(yt)
		cnt := tb
		if ys && fr != nil {
			g := BVCmp("bvsge", cnt, BVu(0, yw))
			ex.safety(fr, "shift", pos, *pc, g, "negative shift count")
			*pc = And(*pc, g)
		}
		// bring the count to width w, saturating
		var c *Term
		if yw == w {
			c = cnt
		} else if yw < w {
			c = Resize(cnt, w, false)
		} else {
			big := BVCmp("bvuge", cnt, BVu(uint64(w), yw))
			c = Ite(big, BVu(uint64(w), w), Resize(cnt, w, false))
		}
		if op == token.SHL {
			return BVOp("bvshl", ta, c)
		}
		if signed {
			return BVOp("bvashr", ta, c)
		}
		return BVOp("bvlshr", ta, c)
	case token.LSS, token.LEQ, token.GTR, token.GEQ:
		pre := "bvu"
		if signed {
			pre = "bvs"
		}
		suf := map[token.Token]string{token.LSS: "lt", token.LEQ: "le", token.GTR: "gt", token.GEQ: "ge"}[op]
		return BVCmp(pre+suf, ta, tb)
	}
	ex.unsupported("binop " + op.String())
	return freshVal("binop", rt)
}

// valEq: Go's == on two values of static type t.
func (ex *Exec) valEq(t types.Type, a, b Val) *Term {
	switch u := under(t).(type) {
	case *types.Basic:
		if isString(u) {
			return ex.strEq(a.(*SliceV), b.(*SliceV))
		}
		if isFloat(u) {
			return App("float$==", SBool, a.(*Term), b.(*Term))
		}
		return Eq(a.(*Term), b.(*Term))
	case *types.Slice:
		// only comparison with nil is legal
		sa, sb := a.(*SliceV), b.(*SliceV)
		if sb.Arr == Null {
			return Eq(sa.Arr, Null)
		}
		return Eq(sb.Arr, Null)
	case *types.Interface:
		ia := ex.asIface(a)
		ib := ex.asIface(b)
		return And(Eq(ia.Tag, ib.Tag), Eq(ia.Data, ib.Data))
	case *types.Struct:
		sa, sb := a.(*StructV), b.(*StructV)
		var cs []*Term
		for i := 0; i < u.NumFields(); i++ {
			cs = append(cs, ex.valEq(u.Field(i).Type(), sa.F[i], sb.F[i]))
		}
		return And(cs...)
	case *types.Signature:
		fa, fb := flat(a), flat(b)
		return Eq(fa[0], fb[0])
	case *types.Array:
		aa, ab := a.(*ArrV), b.(*ArrV)
		var cs []*Term
		for i := range aa.A {
			if u.Len() <= 64 {
				for k := int64(0); k < u.Len(); k++ {
					cs = append(cs, Eq(Select(aa.A[i], BVu(uint64(k), 64)), Select(ab.A[i], BVu(uint64(k), 64))))
				}
			} else {
				cs = append(cs, Eq(aa.A[i], ab.A[i]))
			}
		}
		return And(cs...)
	}
	fa, fb := flat(a), flat(b)
	var cs []*Term
	for i := range fa {
		cs = append(cs, Eq(fa[i], fb[i]))
	}
	return And(cs...)
}

func (ex *Exec) asIface(v Val) *IfaceV {
	if iv, ok := v.(*IfaceV); ok {
		return iv
	}
	panic(fmt.Sprintf("expected interface value, got %T", v))
}

func (ex *Exec) strConcat(st *State, a, b *SliceV) *SliceV {
	if a.Len.isLit() && a.Len.val.Sign() == 0 {
		return b
	}
	if b.Len.isLit() && b.Len.val.Sign() == 0 {
		return a
	}
	r := ex.alloc(st, "concat")
	res := &SliceV{Arr: r, Off: BVu(0, 64), Len: BVOp("bvadd", a.Len, b.Len)}
	k := Bound("k", BV(64))
	rb := Select(Select(STR, r), k)
	f1 := Forall([]*Term{k}, Implies(BVCmp("bvult", k, a.Len), Eq(rb, ex.strByte(a, k))), rb)
	f2 := Forall([]*Term{k}, Implies(And(BVCmp("bvule", a.Len, k), BVCmp("bvult", k, res.Len)), Eq(rb, ex.strByte(b, BVOp("bvsub", k, a.Len)))), rb)
	ex.pendingAssume = append(ex.pendingAssume, f1, f2)
	return res
}

func (ex *Exec) convert(fr *Frame, x *ssa.Convert, st *State) Val {
	from, to := x.X.Type(), x.Type()
	v := ex.val(fr, x.X)
	return ex.convertVal(from, to, v, st)
}

func (ex *Exec) convertVal(from, to types.Type, v Val, st *State) Val {
	fw, fs, fok := intInfo(from)
	tw, _, tok := intInfo(to)
	switch {
	case fok && tok:
		_ = fw
		return Resize(v.(*Term), tw, fs)
	case isString(from) && isString(to):
		return v
	case isString(to):
		if sl, ok := under(from).(*types.Slice); ok {
			sv := v.(*SliceV)
			if b, ok := under(sl.Elem()).(*types.Basic); ok && b.Kind() == types.Uint8 {
				// snapshot of the whole backing array: offset is preserved
				r := ex.alloc(st, "string")
				n, s := elemComp(sl.Elem(), leaf{"", BV(8)})
				ex.pendingAssume = append(ex.pendingAssume, Eq(Select(STR, r), Select(ex.get(st, n, s), sv.Arr)))
				return &SliceV{Arr: r, Off: sv.Off, Len: sv.Len}
			}
		}
		if fok {
			// string(rune): uninterpreted
			r := ex.alloc(st, "runestr")
			return &SliceV{Arr: r, Off: BVu(0, 64), Len: App("runelen", BV(64), Resize(v.(*Term), 64, fs))}
		}
	case isString(from):
		if sl, ok := under(to).(*types.Slice); ok {
			if b, ok := under(sl.Elem()).(*types.Basic); ok && b.Kind() == types.Uint8 {
				sv := v.(*SliceV)
				r := ex.alloc(st, "bytes")
				n, s := elemComp(sl.Elem(), leaf{"", BV(8)})
				ex.setAt(st, n, Store(ex.get(st, n, s), r, Select(STR, sv.Arr)), r)
				return &SliceV{Arr: r, Off: sv.Off, Len: sv.Len, Cap: sv.Len}
			}
		}
	case fok && isFloat(to):
		return App(fmt.Sprintf("float$from%d", fw), SFloat, v.(*Term))
	case isFloat(from) && tok:
		return App(fmt.Sprintf("float$to%d", tw), BV(tw), v.(*Term))
	case isFloat(from) && isFloat(to):
		return v
	}
	if pointerShaped(from) && pointerShaped(to) {
		return v
	}
	ex.unsupported(fmt.Sprintf("conversion %s -> %s", from, to))
	return freshVal("conv", to)
}

func (ex *Exec) typeAssert(fr *Frame, x *ssa.TypeAssert, st *State, pc **Term) Val {
	iv := ex.asIface(ex.val(fr, x.X))
	at := x.AssertedType
	var ok *Term
	var res Val
	if types.IsInterface(at) {
		// interface-to-interface: succeeds iff the dynamic type implements at
		ok = And(Neq(iv.Tag, IntLit(0)), ex.implementsTerm(iv.Tag, at))
		res = iv
	} else {
		ok = Eq(iv.Tag, typeTag(at))
		res = unbox(at, iv.Data)
		// the value inside an interface is a well-formed value that already exists
		ex.pendingAssume = append(ex.pendingAssume, Implies(ok, ex.wfVal(at, res, st.now)))
	}
	if x.CommaOk {
		zero := zeroVal(at)
		return TupleV{iteVal(ok, at, res, zero), ok}
	}
	ex.safety(fr, "typeassert", x.Pos(), *pc, ok, "type assertion may fail: "+at.String())
	*pc = And(*pc, ok)
	return res
}

// implementsTerm: does the dynamic type with this tag implement iface? Known tags are decided
// by go/types; an unknown tag gives an uninterpreted answer.
func (ex *Exec) implementsTerm(tag *Term, iface types.Type) *Term {
	if tag.isLit() {
		name := typeTagNames[tag.val.Int64()]
		if t, ok := ex.P.typeByKey[name]; ok {
			return Bool(types.Implements(t, under(iface).(*types.Interface)))
		}
	}
	return App("implements$"+typeKey(iface), SBool, tag)
}

func (ex *Exec) sliceOp(fr *Frame, x *ssa.Slice, st *State, pc **Term) Val {
	get := func(v ssa.Value, def *Term) *Term {
		if v == nil {
			return def
		}
		return Resize(ex.term(fr, v), 64, isSigned(v.Type()))
	}
	zero := BVu(0, 64)
	switch u := under(x.X.Type()).(type) {
	case *types.Slice:
		sv := ex.val(fr, x.X).(*SliceV)
		lo := get(x.Low, zero)
		hi := get(x.High, sv.Len)
		mx := get(x.Max, sv.Cap)
		g := And(BVCmp("bvule", lo, hi), BVCmp("bvule", hi, mx), BVCmp("bvule", mx, sv.Cap))
		ex.safety(fr, "slice", x.Pos(), *pc, g, "slice bounds out of range")
		*pc = And(*pc, g)
		return &SliceV{Arr: sv.Arr, Off: BVOp("bvadd", sv.Off, lo), Len: BVOp("bvsub", hi, lo), Cap: BVOp("bvsub", mx, lo)}
	case *types.Basic: // string
		sv := ex.val(fr, x.X).(*SliceV)
		lo := get(x.Low, zero)
		hi := get(x.High, sv.Len)
		g := And(BVCmp("bvule", lo, hi), BVCmp("bvule", hi, sv.Len))
		ex.safety(fr, "slice", x.Pos(), *pc, g, "string slice bounds out of range")
		*pc = And(*pc, g)
		return &SliceV{Arr: sv.Arr, Off: BVOp("bvadd", sv.Off, lo), Len: BVOp("bvsub", hi, lo)}
	case *types.Pointer: // *array
		at := under(u.Elem()).(*types.Array)
		base := ex.term(fr, x.X)
		n := BVu(uint64(at.Len()), 64)
		lo := get(x.Low, zero)
		hi := get(x.High, n)
		mx := get(x.Max, n)
		g := And(BVCmp("bvule", lo, hi), BVCmp("bvule", hi, mx), BVCmp("bvule", mx, n))
		ex.safety(fr, "slice", x.Pos(), *pc, g, "slice bounds out of range")
		*pc = And(*pc, g)
		return &SliceV{Arr: base, Off: lo, Len: BVOp("bvsub", hi, lo), Cap: BVOp("bvsub", mx, lo)}
	}
	ex.unsupported("slice of " + x.X.Type().String())
	return freshVal("slice", x.Type())
}

// ------------------------------------------------------------------ maps

func mapKeySort(kt types.Type) (string, bool) {
	if w, _, ok := intInfo(kt); ok {
		return BV(w), true
	}
	if isString(kt) {
		return SInt, true
	}
	if isBoolT(kt) {
		return SBool, true
	}
	if pointerShaped(kt) {
		return SRef, true
	}
	return "", false
}

func (ex *Exec) mapKey(kt types.Type, v Val) *Term {
	if isString(kt) {
		sv := v.(*SliceV)
		return App("strkey", SInt, Select(STR, sv.Arr), sv.Off, sv.Len)
	}
	return v.(*Term)
}

func mapComps(mt *types.Map) (has, ln string, vals []string, ks string, ok bool) {
	ks, ok = mapKeySort(mt.Key())
	if !ok || aggregate(mt.Elem()) {
		return "", "", nil, "", false
	}
	k := "map:" + typeKey(mt.Key()) + ":" + storageKey(mt.Elem())
	has = k + ".has"
	ln = k + ".len"
	for _, l := range leaves(mt.Elem()) {
		vals = append(vals, k+".val"+l.path)
	}
	return
}

func (ex *Exec) mapInit(st *State, t types.Type, r *Term) {
	mt := under(t).(*types.Map)
	has, ln, _, ks, ok := mapComps(mt)
	if !ok {
		ex.unsupported("map type " + t.String())
		return
	}
	hs := ArrSort(SRef, ArrSort(ks, SBool))
	ex.setAt(st, has, Store(ex.get(st, has, hs), r, ConstArr(ArrSort(ks, SBool), False)), r)
	ls := ArrSort(SRef, BV(64))
	ex.setAt(st, ln, Store(ex.get(st, ln, ls), r, BVu(0, 64)), r)
}

func (ex *Exec) lookup(fr *Frame, x *ssa.Lookup, st *State, pc **Term) Val {
	if isString(x.X.Type()) {
		sv := ex.val(fr, x.X).(*SliceV)
		idx := Resize(ex.term(fr, x.Index), 64, isSigned(x.Index.Type()))
		g := BVCmp("bvult", idx, sv.Len)
		ex.safety(fr, "index", x.Pos(), *pc, g, "string index out of range")
		*pc = And(*pc, g)
		return ex.strByte(sv, idx)
	}
	mt := under(x.X.Type()).(*types.Map)
	m := ex.term(fr, x.X)
	has, _, vals, ks, ok := mapComps(mt)
	if !ok {
		ex.unsupported("map lookup on " + mt.String())
		v := freshVal("lookup", mt.Elem())
		ex.pendingAssume = append(ex.pendingAssume, ex.wfVal(mt.Elem(), v, st.now))
		if x.CommaOk {
			return TupleV{v, Fresh("ok", SBool)}
		}
		return v
	}
	k := ex.mapKey(mt.Key(), ex.val(fr, x.Index))
	hs := ArrSort(SRef, ArrSort(ks, SBool))
	present := And(Neq(m, Null), Select(Select(ex.get(st, has, hs), m), k))
	ls := leaves(mt.Elem())
	ts := make([]*Term, len(ls))
	for i, l := range ls {
		c := ex.get(st, vals[i], ArrSort(SRef, ArrSort(ks, l.sort)))
		ts[i] = Ite(present, Select(Select(c, m), k), zeroOfSort(l.sort))
	}
	v := unflat(mt.Elem(), ts)
	ex.pendingAssume = append(ex.pendingAssume, ex.wfVal(mt.Elem(), v, st.now))
	if x.CommaOk {
		return TupleV{v, present}
	}
	return v
}

func (ex *Exec) mapUpdate(fr *Frame, x *ssa.MapUpdate, st *State, pc **Term) {
	mt := under(x.Map.Type()).(*types.Map)
	m := ex.term(fr, x.Map)
	g := Neq(m, Null)
	ex.safety(fr, "nilmap", x.Pos(), *pc, g, "assignment to entry in nil map")
	*pc = And(*pc, g)
	has, ln, vals, ks, ok := mapComps(mt)
	if !ok {
		ex.unsupported("map update on " + mt.String())
		return
	}
	k := ex.mapKey(mt.Key(), ex.val(fr, x.Key))
	hs := ArrSort(SRef, ArrSort(ks, SBool))
	hc := ex.get(st, has, hs)
	was := Select(Select(hc, m), k)
	ex.setAt(st, has, Store(hc, m, Store(Select(hc, m), k, True)), m)
	lc := ex.get(st, ln, ArrSort(SRef, BV(64)))
	// a map that holds some key has at least one entry (representation invariant of maps)
	ex.pendingAssume = append(ex.pendingAssume, Implies(was, BVCmp("bvsge", Select(lc, m), BVu(1, 64))), BVCmp("bvsge", Select(lc, m), BVu(0, 64)), BVCmp("bvsle", Select(lc, m), BVu(1<<40, 64)))
	ex.setAt(st, ln, Store(lc, m, Ite(was, Select(lc, m), BVOp("bvadd", Select(lc, m), BVu(1, 64)))), m)
	fs := flat(ex.val(fr, x.Value))
	for i, l := range leaves(mt.Elem()) {
		c := ex.get(st, vals[i], ArrSort(SRef, ArrSort(ks, l.sort)))
		ex.setAt(st, vals[i], Store(c, m, Store(Select(c, m), k, fs[i])), m)
	}
}

func (ex *Exec) mapLen(st *State, mt *types.Map, m *Term) *Term {
	_, ln, _, _, ok := mapComps(mt)
	if !ok {
		return Fresh("maplen", BV(64))
	}
	l := Select(ex.get(st, ln, ArrSort(SRef, BV(64))), m)
	if l.op != "bv" {
		l.AddFact(And(BVCmp("bvsle", BVu(0, 64), l), BVCmp("bvsle", l, BVu(1<<40, 64))))
	}
	return Ite(Eq(m, Null), BVu(0, 64), l)
}

// range over maps and strings: abstract iterator
type iterV struct {
	x   ssa.Value
	val Val
}

func (ex *Exec) rangeInit(fr *Frame, x *ssa.Range, st *State) Val {
	if mt, ok := under(x.X.Type()).(*types.Map); ok {
		// ghost set of the keys this iteration has produced so far, kept per map object (nested
		// iterations over the same map object are not distinguished)
		if _, _, _, ks, supported := mapComps(mt); supported {
			m := ex.term(fr, x.X)
			n, srt := seenComp(mt, ks)
			ex.setAt(st, n, Store(ex.get(st, n, srt), m, ConstArr(ArrSort(ks, SBool), False)), m)
			has, _, _, _, _ := mapComps(mt)
			ex.setAt(st, n+":count", Store(ex.get(st, n+":count", ArrSort(SRef, BV(64))), m, BVu(0, 64)), m)
			ex.setAt(st, n+":has0", Store(ex.get(st, n+":has0", srt), m, Select(ex.get(st, has, srt), m)), m)
		}
	}
	return Fresh("iter", SRef)
}

// mapWrittenInLoop: is a map of this type updated or deleted from in a block that lies on a
// cycle through the block of the iterator's Next instruction?
func (ex *Exec) mapWrittenInLoop(x *ssa.Next, mt *types.Map) bool {
	home := x.Block()
	// natural loop of the header (the block of Next): blocks dominated by it from which it can be
	// reached again through dominated blocks only
	inLoop := map[*ssa.BasicBlock]bool{}
	var back func(b *ssa.BasicBlock)
	back = func(b *ssa.BasicBlock) {
		for _, p := range b.Preds {
			if !inLoop[p] && home.Dominates(p) {
				inLoop[p] = true
				if p != home {
					back(p)
				}
			}
		}
	}
	back(home)
	inLoop[home] = true
	for _, b := range home.Parent().Blocks {
		if !inLoop[b] {
			continue
		}
		for _, in := range b.Instrs {
			switch i := in.(type) {
			case *ssa.MapUpdate:
				if types.Identical(under(i.Map.Type()), mt) {
					return true
				}
			case *ssa.Call:
				if bi, ok := i.Call.Value.(*ssa.Builtin); ok && (bi.Name() == "delete" || bi.Name() == "clear") {
					return true
				}
				if !isBuiltinOrPure(i) {
					// an opaque call could reach the map through the heap
					if _, isMap := under(i.Call.Value.Type()).(*types.Map); isMap {
						return true
					}
				}
			}
		}
	}
	return false
}

func isBuiltinOrPure(c *ssa.Call) bool { _, ok := c.Call.Value.(*ssa.Builtin); return ok }

func seenComp(mt *types.Map, ks string) (string, string) {
	return "iter:seen:" + typeKey(mt.Key()), ArrSort(SRef, ArrSort(ks, SBool))
}

func (ex *Exec) rangeNext(fr *Frame, x *ssa.Next, st *State, pc **Term) Val {
	rng := x.Iter.(*ssa.Range)
	tt := x.Type().(*types.Tuple)
	ok := Fresh("next$ok", SBool)
	if x.IsString {
		sv := ex.val(fr, rng.X).(*SliceV)
		idx := Fresh("next$idx", BV(64))
		r := Fresh("next$rune", BV(32))
		ex.pendingAssume = append(ex.pendingAssume, Implies(ok, And(BVCmp("bvsle", BVu(0, 64), idx), BVCmp("bvslt", idx, sv.Len))))
		return TupleV{ok, idx, r}
	}
	mt := under(rng.X.Type()).(*types.Map)
	m := ex.term(fr, rng.X)
	has, _, vals, ks, supported := mapComps(mt)
	var kv, vv Val
	if _, inval := tt.At(1).Type().(*types.Basic); inval && tt.At(1).Type().(*types.Basic).Kind() == types.Invalid {
		kv = nil
	}
	kt, vt := tt.At(1).Type(), tt.At(2).Type()
	validT := func(t types.Type) bool {
		b, isb := t.(*types.Basic)
		return !(isb && b.Kind() == types.Invalid)
	}
	if validT(kt) {
		kv = freshVal("next$k", kt)
		ex.pendingAssume = append(ex.pendingAssume, ex.wfVal(kt, kv, st.now))
	} else {
		kv = False
	}
	if validT(vt) {
		vv = freshVal("next$v", vt)
		ex.pendingAssume = append(ex.pendingAssume, ex.wfVal(vt, vv, st.now))
	} else {
		vv = False
	}
	if supported && validT(kt) {
		k := ex.mapKey(mt.Key(), kv)
		hs := ArrSort(SRef, ArrSort(ks, SBool))
		ex.pendingAssume = append(ex.pendingAssume, Implies(ok, And(Neq(m, Null), Select(Select(ex.get(st, has, hs), m), k))))
		// every present key is produced exactly once: a produced key was not seen before and is
		// seen afterwards; when the iteration ends every key still present has been seen (keys
		// inserted during the iteration may or may not be produced: the loops under contract do
		// not insert, and an insertion only makes this fact weaker than the run-time behaviour
		// for keys it does not constrain)
		sn, ssrt := seenComp(mt, ks)
		seenAll := ex.get(st, sn, ssrt)
		seen := Select(seenAll, m)
		ex.pendingAssume = append(ex.pendingAssume, Implies(ok, Not(Select(seen, k))))
		if !ex.mapWrittenInLoop(x, mt) {
			q := Bound("k", ks)
			ex.pendingAssume = append(ex.pendingAssume, Implies(Not(ok), Forall([]*Term{q}, Implies(And(Select(Select(ex.get(st, sn+":has0", ssrt), m), q), Select(Select(ex.get(st, has, hs), m), q)), Select(seen, q)))))
		}
		ex.setAt(st, sn, Store(seenAll, m, Ite(ok, Store(seen, k, True), seen)), m)
		// number of keys produced so far: never more than the map holds
		cn, csrt := sn+":count", ArrSort(SRef, BV(64))
		cnt := Select(ex.get(st, cn, csrt), m)
		if !ex.mapWrittenInLoop(x, mt) {
			ex.pendingAssume = append(ex.pendingAssume, Implies(ok, BVCmp("bvslt", cnt, ex.mapLen(st, mt, m))))
		}
		ex.setAt(st, cn, Store(ex.get(st, cn, csrt), m, Ite(ok, BVOp("bvadd", cnt, BVu(1, 64)), cnt)), m)
		if validT(vt) {
			fs := flat(vv)
			for i, l := range leaves(mt.Elem()) {
				c := ex.get(st, vals[i], ArrSort(SRef, ArrSort(ks, l.sort)))
				ex.pendingAssume = append(ex.pendingAssume, Implies(ok, Eq(fs[i], Select(Select(c, m), k))))
			}
		}
	}
	return TupleV{ok, kv, vv}
}

func (ex *Exec) ghostEvent(fr *Frame, kind string, pos token.Pos, st *State, pc *Term) {
	ex.unsupported("channel " + kind + " abstracted")
}

func (ex *Exec) goStmt(fr *Frame, x *ssa.Go, st *State, pc *Term) {
	ex.unsupported("go statement: spawned body verified separately; shared cells not tracked")
}

// allocEscapes: does the address of a local leave the function other than through closures?
func allocEscapes(a *ssa.Alloc) bool {
	var visit func(v ssa.Value, depth int) bool
	visit = func(v ssa.Value, depth int) bool {
		refs := v.Referrers()
		if refs == nil || depth > 4 {
			return true
		}
		for _, r := range *refs {
			switch x := r.(type) {
			case *ssa.Store:
				if x.Val == v {
					return true
				}
			case *ssa.UnOp, *ssa.DebugRef:
			case *ssa.MakeClosure:
			case *ssa.FieldAddr:
				if visit(x, depth+1) {
					return true
				}
			case *ssa.IndexAddr:
				if visit(x, depth+1) {
					return true
				}
			default:
				return true
			}
		}
		return false
	}
	return visit(a, 0)
}

// onlyDeferred: the closure value is used by defer statements only (it cannot escape into a callee).
func onlyDeferred(m *ssa.MakeClosure) bool {
	refs := m.Referrers()
	if refs == nil {
		return false
	}
	for _, r := range *refs {
		switch r.(type) {
		case *ssa.Defer, *ssa.DebugRef:
		default:
			return false
		}
	}
	return true
}
