package main

import (
	"context"
	"flag"
	"runtime/pprof"
	"fmt"
	"os"
	"strings"
	"time"
)

func usage() {
	fmt.Fprintln(os.Stderr, `usage:
  gvc func  [-repo DIR] [-tier T] [-v] PKGPATTERN FUNCKEY...   verify single functions (debugging)
  gvc check [-repo DIR] [-tier T] PROPERTY                     run the check of one property
  gvc replay PATH                                              re-run a stored replay`)
	os.Exit(2)
}

func main() {
	if len(os.Args) < 2 {
		usage()
	}
	switch os.Args[1] {
	case "func":
		cmdFunc(os.Args[2:])
	case "check":
		cmdCheck(os.Args[2:])
	case "replay":
		cmdReplay(os.Args[2:])
	default:
		usage()
	}
}

func verifRoot() string {
	if d := os.Getenv("GVC_ROOT"); d != "" {
		return d
	}
	return "/verif"
}

func cmdFunc(args []string) {
	fs := flag.NewFlagSet("func", flag.ExitOnError)
	repo := fs.String("repo", "/repo", "repository")
	tier := fs.String("tier", "quick", "tier")
	verbose := fs.Bool("v", false, "verbose")
	dump := fs.String("dump", "", "directory to dump failing scripts")
	debug := fs.Bool("debug", false, "panic on engine faults")
	prof := fs.String("cpuprofile", "", "write cpu profile")
	fs.Parse(args)
	if *prof != "" {
		f, _ := os.Create(*prof)
		pprof.StartCPUProfile(f)
		go func() { time.Sleep(40 * time.Second); pprof.StopCPUProfile(); f.Close(); fmt.Println("profile written"); os.Exit(3) }()
	}
	rest := fs.Args()
	if len(rest) < 2 {
		usage()
	}
	t0 := time.Now()
	P, err := loadProg(*repo, strings.Split(rest[0], ","), []string{verifRoot() + "/contracts"})
	if err != nil {
		fmt.Fprintln(os.Stderr, err)
		os.Exit(2)
	}
	P.debug = *debug
	keepScripts = *dump != ""
	fmt.Printf("loaded in %.1fs; %d contracts, %d contract errors\n", time.Since(t0).Seconds(), len(P.cs.ByKey), len(P.cs.Errors))
	for _, e := range P.cs.Errors {
		fmt.Println("  contract error:", e)
	}
	fail := 0
	for _, key := range rest[1:] {
		fn := P.lookupFunc(key)
		if fn == nil {
			fmt.Printf("function %s not found\n", key)
			fail++
			continue
		}
		t1 := time.Now()
		res := P.verifyFunction(fn, []string{"safety"})
		gen := time.Since(t1).Seconds()
		if res.Engine != "" {
			fmt.Println("ENGINE:", res.Engine)
			fail++
			continue
		}
		if os.Getenv("GVC_TREESIZE") != "" {
			for _, o := range res.Obls {
				fmt.Fprintln(os.Stderr, o.Name)
				treeSizeDebug(o.PC)
			}
			os.Exit(0)
		}
		if os.Getenv("GVC_SCRIPTSTAT") != "" {
			for i, h := range res.houdini {
				if i%20 != 0 {
					continue
				}
				fmt.Fprintf(os.Stderr, "%s\n", h.o.Name)
				printSizeDebug([]*Term{h.o.PC, Not(h.o.Goal)})
				sc := Script([]*Term{h.o.PC, Not(h.o.Goal)}, ScriptOpts{})
				fmt.Fprintf(os.Stderr, "   script bytes %d\n", len(sc))
				if len(sc) > 50000000 {
					lines := strings.Split(sc, "\n")
					for _, l := range lines {
						if len(l) > 10000000 {
							fmt.Fprintf(os.Stderr, "  long line %d: %s ...\n", len(l), l[:1500])
						}
					}
					os.Exit(0)
				}
			}
			os.Exit(0)
		}
		if os.Getenv("GVC_COVERALL") != "" {
			res.runHoudini(*tier)
			en := enableAsserts(res.Candidates)
			for _, o := range res.Obls {
				r := runSolver(context.Background(), solvers[0], Script(append(append([]*Term{}, en...), o.PC), ScriptOpts{}), 5)
				fmt.Printf("   reach %-8s %s %s\n", r.verdict, o.Name, o.Pos)
				if d := os.Getenv("GVC_DUMPOBL"); d != "" && strings.HasSuffix(o.Name, d) {
					os.WriteFile("/tmp/dumpobl.smt2", []byte(Script(append(append([]*Term{}, en...), o.PC), ScriptOpts{})), 0o644)
				}
			}
			os.Exit(0)
		}
		rounds, q := res.runHoudini(*tier)
		solveAll(res.Obls, res.Candidates, *tier, false)
		solveAll(res.Covers, res.Candidates, *tier, true)
		fmt.Printf("== %s: %d obligations, %d candidates (houdini %d rounds, %d queries), vcgen %.2fs, total %.2fs\n", res.Fn, len(res.Obls), len(res.Candidates), rounds, q, gen, time.Since(t1).Seconds())
		for _, c := range res.Candidates {
			if !c.Auto || *verbose {
				fmt.Printf("   cand %-5v %s: %s\n", c.Alive, c.Loop, c.Src)
			}
		}
		for _, o := range res.Covers {
			ok := "ok"
			if o.Verdict != "sat" && o.Soft {
				ok = "unreachable"
			} else if o.Verdict != "sat" {
				ok = "VACUOUS?"
				if o.Pair == nil || o.Pair.Verdict == "sat" {
					if o.Verdict == "unsat" || o.Pair == nil {
						fail++
					}
				} else {
					ok = "unreachable call"
				}
			}
			{
				if *dump != "" {
					os.MkdirAll(*dump, 0o755)
					os.WriteFile(*dump+"/"+sanitize(o.Name)+".smt2", []byte(Script(append(enableAsserts(res.Candidates), o.PC), ScriptOpts{})), 0o644)
				}
			}
			if ok == "VACUOUS?" && o.Verdict == "unsat" || *verbose {
				fmt.Printf("   cover %-40s %s (%s)\n", o.Name, ok, o.Verdict)
			}
		}
		for _, o := range res.Obls {
			if o.Verdict != "unsat" || *verbose {
				fmt.Printf("   %-8s %-60s %s %s %.2fs  [%s] %s\n", o.Verdict, o.Name, o.Pos, o.Solver, o.Seconds, strings.Join(o.Tags, ","), o.Desc)
			}
			if o.Verdict != "unsat" {
				fail++
			}
			if o.Verdict != "unsat" || o.Script != "" {
				if *dump != "" {
					os.MkdirAll(*dump, 0o755)
					fn := *dump + "/" + sanitize(o.Name) + ".smt2"
					os.WriteFile(fn, []byte(o.Script), 0o644)
					os.WriteFile(fn+".out", []byte(o.Model+o.Reason), 0o644)
				}
			}
		}
		for _, n := range res.Notes {
			fmt.Println("   note:", n)
		}
		for _, n := range res.BindErrors {
			fmt.Println("   BIND:", n)
		}
		if *verbose {
			fmt.Println("   inlined:", res.Inlined)
			fmt.Println("   contracts used:", res.UsedCts)
			for _, a := range res.Assumes {
				fmt.Println("   assumes:", a)
			}
		}
		fmt.Println("   unchecked callees:", res.Unchecked)
	}
	if fail > 0 {
		os.Exit(1)
	}
}

// cmdReplay re-decides the obligation a replay file names against /repo's current tree: exit 1 if
// the obligation still fails (or, for a replay with a synthesised input, the stored in-package
// test still fails on the real code), 0 if it is discharged now.
func cmdReplay(args []string) {
	if len(args) < 1 {
		usage()
	}
	var info map[string]interface{}
	if err := loadJSON(args[0], &info); err != nil {
		fmt.Fprintln(os.Stderr, err)
		os.Exit(2)
	}
	prop, _ := info["property"].(string)
	obl, _ := info["obligation"].(string)
	fmt.Printf("replay of %s obligation %s\n", prop, obl)
	if g, ok := info["goal"].(string); ok {
		fmt.Println("  goal:", g)
	}
	if d, ok := info["detail"].(string); ok && d != "" {
		fmt.Println("  detail:", d)
	}
	if in, ok := info["input_hex"].(string); ok {
		fmt.Println("  input:", in)
	}
	var props map[string]*PropConfig
	if err := loadJSON(verifRoot()+"/props.json", &props); err != nil || props[prop] == nil {
		fmt.Fprintln(os.Stderr, "unknown property in replay file")
		os.Exit(2)
	}
	P, err := loadProg("/repo", props[prop].Packages, []string{verifRoot() + "/contracts"})
	if err != nil {
		fmt.Fprintln(os.Stderr, err)
		os.Exit(2)
	}
	// the obligation name starts with the key of the function under contract
	parts := strings.Split(obl, "/")
	var fn = P.lookupFunc(obl)
	for i := len(parts) - 1; i > 0 && fn == nil; i-- {
		fn = P.lookupFunc(strings.Join(parts[:i], "/"))
	}
	if fn == nil {
		fmt.Println("  the function of this obligation no longer exists")
		os.Exit(1)
	}
	res := P.verifyFunction(fn, nil)
	if res.Engine != "" {
		fmt.Println("ENGINE-FAULT:", res.Engine)
		os.Exit(2)
	}
	res.runHoudini("quick")
	var mine []*Obligation
	for _, o := range res.Obls {
		if o.Name == obl {
			mine = append(mine, o)
		}
	}
	if len(mine) == 0 {
		fmt.Println("  no obligation of that name is generated any more")
		os.Exit(1)
	}
	solveAll(mine, res.Candidates, "quick", false)
	for _, o := range mine {
		fmt.Printf("  %s at %s: %s (%s, %.1fs)\n", o.Name, o.Pos, map[bool]string{true: "discharged", false: "FAILS: " + o.Verdict}[o.Verdict == "unsat"], o.Solver, o.Seconds)
		if o.Verdict != "unsat" {
			rp := P.replay(verifRoot(), prop, o, "quick")
			fmt.Printf("VIOLATION property=%s replay=%s obligation=%s%s\n", prop, rp.Path, o.Name, map[bool]string{true: "", false: " no-failing-input-found"}[rp.Reproduced])
			os.Exit(1)
		}
	}
}
