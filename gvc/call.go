package main

import (
	"fmt"
	"sort"
	"go/token"
	"go/types"
	"strings"

	"golang.org/x/tools/go/ssa"
)

const maxInlineDepth = 8

func (ex *Exec) call(fr *Frame, in ssa.Instruction, c *ssa.CallCommon, st *State, pc *Term) (Val, *Term) {
	pos := in.Pos()
	if !pos.IsValid() {
		pos = c.Pos()
	}
	var args []Val
	for _, a := range c.Args {
		args = append(args, ex.val(fr, a))
	}
	ex.callSiteAsserts(fr, in, c, st, pc, pos, "atcall")
	var rv Val
	var rpc *Term
	if b, ok := c.Value.(*ssa.Builtin); ok {
		rv, rpc = ex.builtin(fr, b, c, args, st, pc, pos)
	} else if c.IsInvoke() {
		recv := ex.asIface(ex.val(fr, c.Value))
		rv, rpc = ex.invoke(fr, recv, c.Value.Type(), c.Method, args, st, pc, pos)
	} else {
		fv := ex.val(fr, c.Value)
		rv, rpc = ex.callValue(fr, fv, c.Value.Type(), args, st, pc, pos)
	}
	ex.callSiteAsserts(fr, in, c, st, rpc, pos, "aftercall")
	return rv, rpc
}

// callValue calls a function value.
func (ex *Exec) callValue(fr *Frame, fv Val, ft types.Type, args []Val, st *State, pc *Term, pos token.Pos) (Val, *Term) {
	switch f := fv.(type) {
	case *FuncV:
		return ex.callFunc(fr, f.Fn, args, f.Bind, st, pc, pos)
	case *Term:
		if f.op == "ite" {
			// choice among known targets
			a, oka := funcTab[f.args[1].id]
			b, okb := funcTab[f.args[2].id]
			if oka && okb {
				sa, sb := st.clone(), st.clone()
				va, pa := ex.callValue(fr, a, ft, args, sa, And(pc, f.args[0]), pos)
				vb, pb := ex.callValue(fr, b, ft, args, sb, And(pc, Not(f.args[0])), pos)
				ex.mergeInto(st, f.args[0], sa, sb)
				sig := under(ft).(*types.Signature)
				return iteVal(f.args[0], resultType(sig), va, vb), Or(pa, pb)
			}
		}
		if g, ok := funcTab[f.id]; ok {
			return ex.callValue(fr, g, ft, args, st, pc, pos)
		}
		g := Neq(f, Null)
		ex.safety(fr, "nil", pos, pc, g, "call of nil function")
		pc = And(pc, g)
	}
	sig := under(ft).(*types.Signature)
	// a contract attached to the named function type: "(pkg.Type).call"
	if nt, ok := types.Unalias(ft).(*types.Named); ok {
		key := "(" + typeKey(nt) + ").call"
		if ct, ok := ex.P.cs.ByKey[key]; ok {
			return ex.applyContract(fr, key, sig, ct, args, st, pc, pos)
		}
	}
	return ex.unknownCall(fr, "func value "+ft.String(), sig, args, st, pc, pos)
}

func resultType(sig *types.Signature) types.Type {
	switch sig.Results().Len() {
	case 0:
		return types.NewTuple()
	case 1:
		return sig.Results().At(0).Type()
	}
	return sig.Results()
}

func (ex *Exec) canInline(fn *ssa.Function, fr *Frame) bool {
	if fn.Blocks == nil {
		return false
	}
	if fr.depth >= maxInlineDepth {
		return false
	}
	// recursion guard
	for f := fr; f != nil; f = f.parent {
		if f.fn == fn {
			return false
		}
	}
	if fn.Synthetic != "" && fn.Pkg == nil {
		return true // wrappers, bound methods, thunks
	}
	if fn.Parent() != nil {
		return true // closures
	}
	pkg := ""
	if fn.Pkg != nil {
		pkg = fn.Pkg.Pkg.Path()
	} else if fn.Origin() != nil && fn.Origin().Pkg != nil {
		pkg = fn.Origin().Pkg.Pkg.Path()
	}
	if strings.HasPrefix(pkg, ex.P.module) {
		return true
	}
	return ex.P.inlinePkgs[pkg]
}

func (ex *Exec) callFunc(fr *Frame, fn *ssa.Function, args []Val, bind []Val, st *State, pc *Term, pos token.Pos) (Val, *Term) {
	sig := fn.Signature
	if fn.Name() == "init" && fn.Signature.Params().Len() == 0 && fn.Signature.Recv() == nil && fn.Synthetic != "" {
		return TupleV{}, pc // package initialisers of dependencies are executed on demand
	}
	if isLogPkg(fn) {
		return ex.logCall(fn.Signature, st, pc)
	}
	if m := ex.nativeModel(fr, fn, args, st, &pc, pos); m != nil {
		return m.v, pc
	}
	ct := ex.P.contractFor(fn)
	if ct != nil && !ct.Inline && !(fr.root && fn == fr.fn) {
		// a closure under contract: its captured variables are visible to the contract by name
		ex.closureBind = nil
		if len(fn.FreeVars) > 0 && len(bind) == len(fn.FreeVars) {
			ex.closureBind = map[string]specBinding{}
			for i, fv := range fn.FreeVars {
				if c, ok := bind[i].(*Term); ok {
					if pt, ok := fv.Type().(*types.Pointer); ok {
						ex.closureBind[fv.Name()] = specBinding{typ: pt.Elem(), cell: c}
					}
				}
			}
		}
		defer func() { ex.closureBind = nil }()
		return ex.applyContract(fr, ex.P.relName(fn), sig, ct, args, st, pc, pos)
	}
	if ex.canInline(fn, fr) {
		ex.inlined[ex.P.relName(fn)] = true
		nf := ex.newFrame(fn, args, bind, st, fr)
		nf.callPos = pos
		rets, out, opc := ex.run(nf, st.clone(), pc)
		*st = *out
		switch len(rets) {
		case 0:
			if opc == False {
				return zeroVal(resultType(sig)), opc
			}
			return TupleV{}, opc
		case 1:
			return rets[0], opc
		}
		return TupleV(rets), opc
	}
	return ex.unknownCall(fr, fn.String(), sig, args, st, pc, pos)
}

// unknownCall: no contract, no body. Result is arbitrary; everything reachable by type from the
// arguments is havoc'd; the callee is recorded as unchecked (it may panic).
func (ex *Exec) unknownCall(fr *Frame, name string, sig *types.Signature, args []Val, st *State, pc *Term, pos token.Pos) (Val, *Term) {
	ex.unchecked[name] = true
	pc = ex.callbackEffects(fr, st, pc)
	if !ex.initMode {
		seen := map[string]bool{}
		params := sig.Params()
		var tys []types.Type
		if sig.Recv() != nil {
			tys = append(tys, sig.Recv().Type())
		}
		for i := 0; i < params.Len(); i++ {
			tys = append(tys, params.At(i).Type())
		}
		for _, t := range tys {
			ex.havocReachable(st, t, seen, 0)
		}
		ex.havocDynamic(st, args, seen)
	}
	n := Fresh("now", SInt)
	pc = And(pc, IntOp("<=", st.now, n))
	st.now = n
	rt := resultType(sig)
	rv := freshVal("ret$"+shortName(name), rt)
	pc = And(pc, ex.wfVal(rt, rv, st.now))
	if len(ex.pendingAssume) > 0 {
		pc = And(append([]*Term{pc}, ex.pendingAssume...)...)
		ex.pendingAssume = nil
	}
	return rv, pc
}

// havocDynamic: an argument passed as an interface whose dynamic type is known at the call site
// (a boxed pointer, say) gives the callee access to everything reachable from that type.
func (ex *Exec) havocDynamic(st *State, args []Val, seen map[string]bool) {
	var tags func(t *Term, depth int)
	tags = func(t *Term, depth int) {
		if t == nil || depth > 4 {
			return
		}
		if t.isLit() {
			if dt, ok := ex.P.typeByKey[typeTagNames[t.val.Int64()]]; ok {
				ex.havocReachable(st, dt, seen, 0)
			}
			return
		}
		if t.op == "ite" {
			tags(t.args[1], depth+1)
			tags(t.args[2], depth+1)
		}
	}
	for _, a := range args {
		switch v := a.(type) {
		case *IfaceV:
			tags(v.Tag, 0)
		case *SliceV:
			_ = v
		}
	}
}

func shortName(s string) string {
	if i := strings.LastIndex(s, "/"); i >= 0 {
		s = s[i+1:]
	}
	return s
}

// havocReachable havocs every component that a callee could write given a value of type t.
func (ex *Exec) havocReachable(st *State, t types.Type, seen map[string]bool, depth int) {
	k := typeKey(t)
	if seen[k] || depth > 6 {
		return
	}
	seen[k] = true
	switch u := under(t).(type) {
	case *types.Pointer:
		el := u.Elem()
		switch eu := under(el).(type) {
		case *types.Struct:
			for i := 0; i < eu.NumFields(); i++ {
				ft := eu.Field(i).Type()
				if aggregate(ft) {
					ex.havocReachable(st, types.NewPointer(ft), seen, depth+1)
					continue
				}
				for _, l := range leaves(ft) {
					n, _ := fieldComp(el, i, l)
					ex.havocComp(st, n)
				}
				ex.havocReachable(st, ft, seen, depth+1)
			}
		case *types.Array:
			ex.havocReachable(st, types.NewSlice(eu.Elem()), seen, depth+1)
		default:
			for _, l := range leaves(el) {
				n, _ := cellComp(el, l)
				ex.havocComp(st, n)
			}
			ex.havocReachable(st, el, seen, depth+1)
		}
	case *types.Slice:
		et := u.Elem()
		if aggregate(et) {
			ex.havocReachable(st, types.NewPointer(et), seen, depth+1)
		} else {
			for _, l := range leaves(et) {
				n, _ := elemComp(et, l)
				ex.havocComp(st, n)
			}
			ex.havocReachable(st, et, seen, depth+1)
		}
	case *types.Struct:
		for i := 0; i < u.NumFields(); i++ {
			ex.havocReachable(st, u.Field(i).Type(), seen, depth+1)
		}
	case *types.Map:
		has, ln, vals, _, ok := mapComps(u)
		if ok {
			ex.havocComp(st, has)
			ex.havocComp(st, ln)
			for _, v := range vals {
				ex.havocComp(st, v)
			}
		}
		ex.havocReachable(st, u.Elem(), seen, depth+1)
	case *types.Interface:
		// dynamic type unknown: in-module struct types with methods could be behind it; we
		// conservatively havoc ghost state only
		for name := range compSorts {
			if strings.HasPrefix(name, "ghost:") {
				ex.havocComp(st, name)
			}
		}
	}
}

// ------------------------------------------------------------------ interface method calls

func (ex *Exec) invoke(fr *Frame, recv *IfaceV, it types.Type, m *types.Func, args []Val, st *State, pc *Term, pos token.Pos) (Val, *Term) {
	g := Neq(recv.Tag, IntLit(0))
	ex.safety(fr, "nil", pos, pc, g, "method call on nil interface")
	pc = And(pc, g)
	sig := m.Type().(*types.Signature)
	if m.Pkg() != nil && strings.HasPrefix(m.Pkg().Path(), "go.uber.org/zap") {
		return ex.logCall(sig, st, pc)
	}
	if lit, ok := ex.tagFacts[recv.Tag.id]; ok {
		recv = &IfaceV{Tag: lit, Data: recv.Data}
	}
	// statically known dynamic type
	if recv.Tag.isLit() {
		tn := typeTagNames[recv.Tag.val.Int64()]
		if dt, ok := ex.P.typeByKey[tn]; ok {
			if fn := ex.P.prog.LookupMethod(dt, m.Pkg(), m.Name()); fn != nil {
				// A concrete method with neither contract nor body to inline (a library type such as
				// *tls.Conn) is covered by the interface's contract, exactly as it is when the dynamic
				// type is not known at the call site: whether the type happens to be known (it depends
				// on the order of the branches that are merged) must not change the verdict.
				if ex.P.contractFor(fn) == nil && !ex.canInline(fn, fr) && !isLogPkg(fn) {
					if ct := ex.ifaceContractFor(it, m); ct != nil {
						ct.Used = true
						return ex.applyContract(fr, ct.Key, sig, ct, append([]Val{recv}, args...), st, pc, pos)
					}
				}
				rv := unbox(dt, recv.Data)
				return ex.callFunc(fr, fn, append([]Val{rv}, args...), nil, st, pc, pos)
			}
		}
	}
	// a merge of a known dynamic type with another one: decide each case on its own, whichever of the
	// two alternatives is the known one (the order of merged branches must not matter)
	if recv.Tag.op == "ite" && (recv.Tag.args[1].isLit() || recv.Tag.args[2].isLit()) {
		c := recv.Tag.args[0]
		ra := &IfaceV{Tag: recv.Tag.args[1], Data: recv.Data}
		rb := &IfaceV{Tag: recv.Tag.args[2], Data: recv.Data}
		sa, sb := st.clone(), st.clone()
		va, pa := ex.invoke(fr, ra, it, m, args, sa, And(pc, c), pos)
		vb, pb := ex.invoke(fr, rb, it, m, args, sb, And(pc, Not(c)), pos)
		ex.mergeInto(st, c, sa, sb)
		return iteVal(c, resultType(sig), va, vb), Or(pa, pb)
	}
	// interface contract
	key := ifaceMethodKey(it, m)
	if ct, ok := ex.P.cs.ByKey[key]; ok {
		ct.Used = true
		return ex.applyContract(fr, key, sig, ct, append([]Val{recv}, args...), st, pc, pos)
	}
	// also try the interface that declares the method (embedded interfaces)
	if recvT := m.Type().(*types.Signature).Recv(); recvT != nil {
		key2 := "(" + typeKey(recvT.Type()) + ")." + m.Name()
		if ct, ok := ex.P.cs.ByKey[key2]; ok {
			ct.Used = true
			return ex.applyContract(fr, key2, sig, ct, append([]Val{recv}, args...), st, pc, pos)
		}
	}
	return ex.unknownCall(fr, key, sig, args, st, pc, pos)
}

// ifaceContractFor: the contract of interface method m as seen through interface type it (or through
// the interface that declares m), nil if there is none.
func (ex *Exec) ifaceContractFor(it types.Type, m *types.Func) *Contract {
	if ct, ok := ex.P.cs.ByKey[ifaceMethodKey(it, m)]; ok {
		return ct
	}
	if recvT := m.Type().(*types.Signature).Recv(); recvT != nil {
		if ct, ok := ex.P.cs.ByKey["("+typeKey(recvT.Type())+")."+m.Name()]; ok {
			return ct
		}
	}
	return nil
}

func ifaceMethodKey(it types.Type, m *types.Func) string {
	return "(" + typeKey(it) + ")." + m.Name()
}

// ------------------------------------------------------------------ contracts at call sites

func (ex *Exec) bindParams(ct *Contract, sig *types.Signature, args []Val, env *SpecEnv) {
	i := 0
	if sig.Recv() != nil {
		if ct.RecvName != "" {
			env.vars[ct.RecvName] = specBinding{val: args[0], typ: sig.Recv().Type()}
		}
		i = 1
	}
	ps := sig.Params()
	if len(ct.Params) != ps.Len() {
		specFail("contract %s: %d parameters named, function has %d", ct.Key, len(ct.Params), ps.Len())
	}
	for k := 0; k < ps.Len(); k++ {
		env.vars[ct.Params[k]] = specBinding{val: args[i+k], typ: ps.At(k).Type()}
	}
}

func (ex *Exec) bindResults(ct *Contract, sig *types.Signature, rets []Val, env *SpecEnv) {
	rs := sig.Results()
	if len(ct.Results) != 0 && len(ct.Results) != rs.Len() {
		specFail("contract %s: %d results named, function has %d", ct.Key, len(ct.Results), rs.Len())
	}
	for k := 0; k < rs.Len() && k < len(ct.Results); k++ {
		env.vars[ct.Results[k]] = specBinding{val: rets[k], typ: rs.At(k).Type()}
	}
	if rs.Len() == 1 {
		env.vars["result"] = specBinding{val: rets[0], typ: rs.At(0).Type()}
	}
}

func (ex *Exec) applyContract(fr *Frame, name string, sig *types.Signature, ct *Contract, args []Val, st *State, pc *Term, pos token.Pos) (rv Val, npc *Term) {
	ct.Used = true
	ex.usedCts[ct.Key] = true
	pcEntry := pc
	if ct.Trusted {
		ex.assumes["assumed contract: "+ct.Key] = true
	}
	if hasStr(ct.AssignsTags, "assumed") {
		ex.assumes["ASSUMED frame of "+ct.Key+" (its assigns clause is not proved from its body)"] = true
	}
	env := &SpecEnv{ex: ex, pkg: ct.Pkg, vars: map[string]specBinding{}, cur: st, old: st, slSt: map[*SliceV]*State{}}
	failed := false
	func() {
		defer func() {
			if r := recover(); r != nil {
				if se, ok := r.(specError); ok {
					ex.P.bindErrors = append(ex.P.bindErrors, fmt.Sprintf("%s (call site %s): %s", ct.Key, ex.posOf(pos), se.msg))
					failed = true
					return
				}
				panic(r)
			}
		}()
		ex.bindParams(ct, sig, args, env)
		for n, b := range ex.closureBind {
			if _, shadow := env.vars[n]; !shadow {
				env.vars[n] = b
			}
		}
		ex.closureBind = nil
		// preconditions
		for _, cl := range ct.Clauses {
			if cl.Kind != "requires" || cl.Expr == nil {
				continue
			}
			g := ex.evalBool(cl.Expr, env)
			ex.addObl(fr, "pre:"+shortName(name), pos, pc, g, "precondition of "+name+": "+cl.Src, ex.preTags(cl), cl)
			pc = And(pc, g)
		}
	}()
	if failed {
		return ex.unknownCall(fr, name, sig, args, st, pc, pos)
	}
	old := st.clone()
	env.old = old
	// results (created first so that the frame may mention them)
	rt := resultType(sig)
	var rets []Val
	rs := sig.Results()
	for k := 0; k < rs.Len(); k++ {
		nm := fmt.Sprintf("ret%d$%s", k, shortName(name))
		rets = append(rets, freshVal(nm, rs.At(k).Type()))
	}
	if ct.Pure {
		// a pure function is an uninterpreted function of its arguments and of the heap
		// components reachable (by type) from them: two calls in the same state agree
		var fargs []*Term
		for _, a := range args {
			fargs = append(fargs, flat(a)...)
		}
		seen := map[string]bool{}
		var names []string
		if sig.Recv() != nil {
			ex.reachableComps(sig.Recv().Type(), seen, &names, 0)
		}
		for i := 0; i < sig.Params().Len(); i++ {
			ex.reachableComps(sig.Params().At(i).Type(), seen, &names, 0)
		}
		sort.Strings(names)
		var comps []*Term
		var known []string
		for _, n := range names {
			if srt, ok := compSorts[n]; ok {
				comps = append(comps, ex.get(st, n, srt))
				known = append(known, n)
			}
		}
		sigName := fmt.Sprintf("pure$%s$%08x", shortName(name), hashStr(strings.Join(known, ",")))
		for k := 0; k < rs.Len(); k++ {
			ls := leaves(rs.At(k).Type())
			ts := make([]*Term, len(ls))
			for i, l := range ls {
				ts[i] = App(fmt.Sprintf("%s$%d%s", sigName, k, l.path), l.sort, append(append([]*Term{}, fargs...), comps...)...)
			}
			rets[k] = unflat(rs.At(k).Type(), ts)
		}
	}
	// frame
	func() {
		defer func() {
			if r := recover(); r != nil {
				if se, ok := r.(specError); ok {
					ex.P.bindErrors = append(ex.P.bindErrors, fmt.Sprintf("%s assigns: %s", ct.Key, se.msg))
					failed = true
					return
				}
				panic(r)
			}
		}()
		if !ct.AssignsSet {
			seen := map[string]bool{}
			if sig.Recv() != nil {
				ex.havocReachable(st, sig.Recv().Type(), seen, 0)
			}
			for i := 0; i < sig.Params().Len(); i++ {
				ex.havocReachable(st, sig.Params().At(i).Type(), seen, 0)
			}
			ex.havocDynamic(st, args, seen)
			ex.assumes["frame of "+ct.Key+" unspecified: everything reachable from its arguments is havoc'd"] = true
		} else {
			envOld := *env
			envOld.cur = old
			envOld.vars = map[string]specBinding{}
			for k, v := range env.vars {
				envOld.vars[k] = v
			}
			ex.bindResults(ct, sig, rets, &envOld)
			for _, a := range ct.Assigns {
				for _, loc := range ex.evalLocs(a, &envOld) {
					ex.havocLoc(st, loc)
				}
			}
			for _, m := range ct.Modifies {
				ex.havocComp(st, m)
			}
		}
	}()
	if !ct.NoAlloc {
		n := Fresh("now", SInt)
		pc = And(pc, IntOp("<=", st.now, n))
		st.now = n
	}
	for k := 0; k < rs.Len(); k++ {
		pc = And(pc, ex.wfVal(rs.At(k).Type(), rets[k], st.now))
	}
	env.cur = st
	func() {
		defer func() {
			if r := recover(); r != nil {
				if se, ok := r.(specError); ok {
					ex.P.bindErrors = append(ex.P.bindErrors, fmt.Sprintf("%s (call site %s): %s", ct.Key, ex.posOf(pos), se.msg))
					return
				}
				panic(r)
			}
		}()
		ex.bindResults(ct, sig, rets, env)
		for _, cl := range ct.Clauses {
			if cl.Kind != "ensures" || cl.Expr == nil {
				continue
			}
			if hasStr(cl.Tags, "assumed") {
				ex.assumes["ASSUMED postcondition of "+ct.Key+" (not proved from its body): "+cl.Src] = true
			}
			pc = And(pc, ex.evalBool(cl.Expr, env))
		}
	}()
	if len(ex.pendingAssume) > 0 {
		pc = And(append([]*Term{pc}, ex.pendingAssume...)...)
		ex.pendingAssume = nil
	}
	if ct.Callsback {
		pc = ex.callbackEffects(fr, st, pc)
	}
	// vacuity: what the contract lets the caller assume must not contradict the caller's state
	// (checked as a pair: reachable before the call => reachable after it)
	if !ex.discover && !ex.initMode && ex.inCallback == 0 && pcEntry != nil {
		site := ct.Key + "@" + ex.posOf(pos)
		if !ex.callCovers[site] {
			if ex.callCovers == nil {
				ex.callCovers = map[string]bool{}
			}
			ex.callCovers[site] = true
			before := &Obligation{Name: ex.root.String() + "/cover-before:" + shortName(name) + "@" + ex.posOf(pos), Kind: "cover", PC: pcEntry, Goal: False, Desc: "the call is reachable", Soft: true}
			after := &Obligation{Name: ex.root.String() + "/cover-after:" + shortName(name) + "@" + ex.posOf(pos), Kind: "cover", PC: pc, Goal: False, Desc: "the state the contract of " + name + " describes after the call is reachable", Pair: before}
			ex.covers = append(ex.covers, before, after)
		}
	}
	switch rs.Len() {
	case 0:
		return TupleV{}, pc
	case 1:
		return rets[0], pc
	}
	_ = rt
	return TupleV(rets), pc
}

// callbackEffects: an opaque callee may have invoked, any number of times, the closures this frame
// created (they may have escaped into it). For each closure: the cells it writes are havoc'd (earlier
// invocations), its body is executed once more on arbitrary arguments that satisfy its contract's
// precondition (the last invocation), and the result is merged with "not invoked at all".
func (ex *Exec) callbackEffects(fr *Frame, st *State, pc *Term) *Term {
	if fr == nil || len(fr.closures) == 0 || ex.inCallback > 0 {
		return pc
	}
	ex.inCallback++
	defer func() { ex.inCallback-- }()
	savedDisc, savedPend := ex.discover, ex.pendingAssume
	defer func() { ex.discover, ex.pendingAssume = savedDisc, savedPend }()
	for _, cl := range fr.closures {
		fn := cl.Fn
		mkArgs := func() ([]Val, *Term) {
			var args []Val
			var wf []*Term
			for _, p := range fn.Params {
				v := freshVal("cb$"+p.Name(), p.Type())
				args = append(args, v)
				wf = append(wf, ex.wfVal(p.Type(), v, st.now))
			}
			return args, And(wf...)
		}
		// 1. what does one invocation write?
		args, awf := mkArgs()
		wl := newWriteLog()
		ex.discover = true
		ex.pendingAssume = nil
		ex.wlogs = append(ex.wlogs, wl)
		limit := TS.n
		pf := ex.newFrame(fn, args, cl.Bind, st, fr)
		ex.run(pf, st.clone(), And(pc, awf))
		ex.wlogs = ex.wlogs[:len(ex.wlogs)-1]
		// 2. arbitrary earlier invocations: havoc those locations
		hst := st.clone()
		for name, refs := range wl.refs {
			srt, ok := compSorts[name]
			if !ok {
				continue
			}
			whole := wl.whole[name]
			for _, r := range refs {
				if r.id > limit {
					whole = true
				}
			}
			if whole || !strings.HasPrefix(srt, "(Array Ref") {
				ex.havocComp(hst, name)
				continue
			}
			_, inner := arrParts(srt)
			c := ex.get(hst, name, srt)
			for _, r := range refs {
				c = Store(c, r, Fresh("cb$"+name, inner))
			}
			hst.comp[name] = c
			ex.noteWriteAt(name, nil)
		}
		for name := range wl.whole {
			if _, done := wl.refs[name]; !done {
				ex.havocComp(hst, name)
			}
		}
		// 3. the last invocation, on arguments satisfying the closure's precondition
		args2, awf2 := mkArgs()
		nf := ex.newFrame(fn, args2, cl.Bind, hst, fr)
		cpc := awf2
		if nf.ct != nil {
			func() {
				defer func() { recover() }()
				env := &SpecEnv{ex: ex, pkg: nf.ct.Pkg, vars: map[string]specBinding{}, cur: hst, old: hst, slSt: map[*SliceV]*State{}}
				ex.bindParams(nf.ct, fn.Signature, args2, env)
				for _, c := range nf.ct.Clauses {
					if c.Kind == "requires" && c.Expr != nil {
						cpc = And(cpc, ex.evalBool(c.Expr, env))
					}
				}
			}()
			ex.assumes["callers of the escaped closure "+ex.P.relName(fn)+" establish its precondition (interface contract of the handler chain)"] = true
		}
		ex.pendingAssume = nil
		_, out, _ := ex.run(nf, hst, And(pc, cpc))
		invoked := Fresh("cb$invoked", SBool)
		m := newState()
		m.extyp = st.extyp
		ex.mergeInto(m, invoked, out, st)
		*st = *m
		pc = And(pc, Implies(invoked, cpc))
	}
	return pc
}

func (ex *Exec) preTags(cl *Clause) []string {
	if len(cl.Tags) > 0 {
		return cl.Tags
	}
	return ex.safetyTags
}

// Loc is an assignable location set.
type Loc struct {
	comp   string
	sort   string
	ref    *Term // nil: whole component (or a global scalar)
	lo, hi *Term // element range (absolute indices) for elem components
	global bool
	whole  bool // the whole component (reach(x) in an assumed contract)
}

func (ex *Exec) evalLocs(e *SExpr, env *SpecEnv) []Loc {
	switch e.Op {
	case "sel":
		bv, bt := ex.evalSpec(e.Args[0], env)
		pt, ok := under(bt).(*types.Pointer)
		if !ok {
			specFail("assigns: %s is not a field of a pointer", e.String())
		}
		st := structOf(pt.Elem())
		if st == nil {
			specFail("assigns: %s: not a struct", e.String())
		}
		for i := 0; i < st.NumFields(); i++ {
			if st.Field(i).Name() == e.Name {
				return ex.fieldLocs(pt.Elem(), i, bv.(*Term))
			}
		}
		specFail("assigns: no field %s", e.Name)
	case "deref":
		bv, bt := ex.evalSpec(e.Args[0], env)
		pt := under(bt).(*types.Pointer)
		return ex.objLocs(pt.Elem(), bv.(*Term))
	case "slice", "ident", "index":
		if e.Op == "ident" {
			// a global variable?
			if _, bound := env.vars[e.Name]; !bound {
				if tp := ex.P.findPkg(env.pkg); tp != nil {
					if o, ok := tp.Scope().Lookup(e.Name).(*types.Var); ok {
						var out []Loc
						gname := sanitize("glob$" + o.Pkg().Path() + "." + o.Name())
						for _, l := range leaves(o.Type()) {
							out = append(out, Loc{comp: gname + l.path, sort: l.sort, global: true})
						}
						return out
					}
				}
			}
		}
		if e.Op == "index" {
			bv, bt := ex.evalSpec(e.Args[0], env)
			sl, ok := under(bt).(*types.Slice)
			if !ok {
				specFail("assigns: index of non-slice")
			}
			iv, it := ex.evalSpec(e.Args[1], env)
			sv := bv.(*SliceV)
			idx := BVOp("bvadd", sv.Off, ex.toIdx(iv, it))
			return ex.elemLocs(sl.Elem(), sv.Arr, idx, BVOp("bvadd", idx, BVu(1, 64)))
		}
		v, t := ex.evalSpec(e, env)
		sl, ok := under(t).(*types.Slice)
		if !ok {
			specFail("assigns: %s is not a slice", e.String())
		}
		sv := v.(*SliceV)
		return ex.elemLocs(sl.Elem(), sv.Arr, sv.Off, BVOp("bvadd", sv.Off, sv.Len))
	case "call":
		if e.Args[0].Op == "ident" {
			if g, ok := ex.P.cs.Ghosts[e.Args[0].Name]; ok && !g.Immutable {
				var r *Term
				if len(e.Args) < 2 {
					r = Null // a global ghost variable
				} else {
					v, _ := ex.evalSpec(e.Args[1], env)
					if iv, ok := v.(*IfaceV); ok {
						r = iv.Data
					} else {
						r = flat(v)[0]
					}
				}
				var out []Loc
				for _, l := range leaves(ex.resolveType(g.Ret, g.Pkg)) {
					out = append(out, Loc{comp: "ghost:" + g.Name + l.path, sort: ArrSort(SRef, l.sort), ref: r})
				}
				return out
			}
			if e.Args[0].Name == "reach" {
				// reach(x): every component a callee could write given x (by its type; for an
				// interface value whose dynamic type is known at the call site, by that type)
				v, t := ex.evalSpec(e.Args[1], env)
				var names []string
				ex.collect = &names
				seen := map[string]bool{}
				if iv, ok := v.(*IfaceV); ok {
					before := len(names)
					ex.havocDynamic(nil, []Val{iv}, seen)
					if len(names) == before {
						ex.havocReachable(nil, t, seen, 0)
					}
				} else {
					ex.havocReachable(nil, t, seen, 0)
				}
				ex.collect = nil
				var out []Loc
				for _, n := range names {
					out = append(out, Loc{comp: n, sort: compSorts[n], whole: true})
				}
				return out
			}
			if e.Args[0].Name == "all" {
				// all(x): the whole object x points to
				bv, bt := ex.evalSpec(e.Args[1], env)
				if iv, ok := bv.(*IfaceV); ok {
					// an interface value: the object its dynamic type (known at the call site)
					// points to; a pointer to a slice also gives access to the slice's elements
					if iv.Tag.isLit() {
						if dt, ok := ex.P.typeByKey[typeTagNames[iv.Tag.val.Int64()]]; ok {
							if pt, ok := under(dt).(*types.Pointer); ok {
								ref := unbox(dt, iv.Data).(*Term)
								if sl, ok := under(pt.Elem()).(*types.Slice); ok && !aggregate(sl.Elem()) {
									// a pointer to a slice: the slice's elements (the header is
									// not written by the callees this is used for)
									sv := ex.loadPtr(env.cur, pt.Elem(), ref).(*SliceV)
									return ex.elemLocs(sl.Elem(), sv.Arr, sv.Off, BVOp("bvadd", sv.Off, sv.Len))
								}
								return ex.objLocs(pt.Elem(), ref)
							}
						}
					}
					var names []string
					ex.collect = &names
					ex.havocReachable(nil, bt, map[string]bool{}, 0)
					ex.collect = nil
					var out []Loc
					for _, n := range names {
						out = append(out, Loc{comp: n, sort: compSorts[n], whole: true})
					}
					return out
				}
				pt := under(bt).(*types.Pointer)
				return ex.objLocs(pt.Elem(), bv.(*Term))
			}
		}
	}
	specFail("assigns: unsupported location %s", e.String())
	return nil
}

func (ex *Exec) fieldLocs(owner types.Type, i int, base *Term) []Loc {
	ft := structOf(owner).Field(i).Type()
	if aggregate(ft) {
		return ex.objLocs(ft, subRef(owner, i, base))
	}
	var out []Loc
	for _, l := range leaves(ft) {
		n, s := fieldComp(owner, i, l)
		out = append(out, Loc{comp: n, sort: s, ref: base})
	}
	return out
}

func (ex *Exec) objLocs(t types.Type, ref *Term) []Loc {
	// pointers into objects: a field or an element of another object
	switch {
	case ref.op == "ite":
		return append(ex.objLocs(t, ref.args[1]), ex.objLocs(t, ref.args[2])...)
	case ref.op == "app" && strings.HasPrefix(ref.name, "fld$"):
		fi := fldTab[ref.name]
		if !aggregate(t) {
			return ex.fieldLocs(fi.owner, fi.idx, ref.args[0])
		}
	case ref.op == "app" && strings.HasPrefix(ref.name, "elem$"):
		if !aggregate(t) {
			return ex.elemLocs(elemTab[ref.name], ref.args[0], ref.args[1], BVOp("bvadd", ref.args[1], BVu(1, 64)))
		}
	}
	switch u := under(t).(type) {
	case *types.Struct:
		var out []Loc
		for i := 0; i < u.NumFields(); i++ {
			out = append(out, ex.fieldLocs(t, i, ref)...)
		}
		return out
	case *types.Array:
		return ex.elemLocs(u.Elem(), ref, BVu(0, 64), BVu(uint64(u.Len()), 64))
	}
	var out []Loc
	for _, l := range leaves(t) {
		n, s := cellComp(t, l)
		out = append(out, Loc{comp: n, sort: s, ref: ref})
	}
	return out
}

func (ex *Exec) elemLocs(et types.Type, arr, lo, hi *Term) []Loc {
	if aggregate(et) {
		specFail("assigns: ranges of aggregate elements are not supported")
	}
	var out []Loc
	for _, l := range leaves(et) {
		n, s := elemComp(et, l)
		out = append(out, Loc{comp: n, sort: s, ref: arr, lo: lo, hi: hi})
	}
	return out
}

func (ex *Exec) havocLoc(st *State, loc Loc) {
	if loc.whole {
		ex.havocComp(st, loc.comp)
		return
	}
	if loc.global {
		compSorts[loc.comp] = loc.sort
		v := Fresh("H$"+loc.comp, loc.sort)
		st.comp[loc.comp] = v
		ex.noteWriteAt(loc.comp, nil)
		return
	}
	c := ex.get(st, loc.comp, loc.sort)
	_, inner := arrParts(loc.sort)
	if loc.lo == nil {
		f := Fresh("hv$"+loc.comp, inner)
		ex.setAt(st, loc.comp, Store(c, loc.ref, f), loc.ref)
		return
	}
	// element range
	na := Fresh("hv$"+loc.comp, inner)
	oldA := Select(c, loc.ref)
	k := Bound("k", BV(64))
	outside := Or(BVCmp("bvslt", k, loc.lo), BVCmp("bvsle", loc.hi, k))
	ex.pendingAssume = append(ex.pendingAssume, Forall([]*Term{k}, Implies(outside, Eq(Select(na, k), Select(oldA, k))), Select(na, k)))
	ex.setAt(st, loc.comp, Store(c, loc.ref, na), loc.ref)
}

// ------------------------------------------------------------------ defers

func (ex *Exec) runDefers(fr *Frame, st *State, pc *Term) *Term {
	for i := len(fr.defers) - 1; i >= 0; i-- {
		d := fr.defers[i]
		k := fmt.Sprintf("defer:%p:%d", fr, i)
		flag, ok := st.extra[k].(*Term)
		if !ok || flag == False {
			continue
		}
		var args []Val
		for j := range d.Call.Args {
			args = append(args, st.extra[fmt.Sprintf("%s:arg%d", k, j)])
		}
		run := st.clone()
		var rpc *Term
		cpc := And(pc, flag)
		if b, isB := d.Call.Value.(*ssa.Builtin); isB {
			_, rpc = ex.builtin(fr, b, &d.Call, args, run, cpc, d.Pos())
		} else if d.Call.IsInvoke() {
			recv := ex.asIface(fr.deferFns[i])
			_, rpc = ex.invoke(fr, recv, d.Call.Value.Type(), d.Call.Method, args, run, cpc, d.Pos())
		} else {
			_, rpc = ex.callValue(fr, fr.deferFns[i], d.Call.Value.Type(), args, run, cpc, d.Pos())
		}
		if len(ex.pendingAssume) > 0 {
			rpc = And(append([]*Term{rpc}, ex.pendingAssume...)...)
			ex.pendingAssume = nil
		}
		skip := st.clone()
		ex.mergeInto(st, flag, run, skip)
		pc = Or(rpc, And(pc, Not(flag)))
	}
	return pc
}

// ------------------------------------------------------------------ builtins

func (ex *Exec) builtin(fr *Frame, b *ssa.Builtin, c *ssa.CallCommon, args []Val, st *State, pc *Term, pos token.Pos) (Val, *Term) {
	switch b.Name() {
	case "len", "cap":
		switch x := args[0].(type) {
		case *SliceV:
			if b.Name() == "cap" {
				return x.Cap, pc
			}
			return x.Len, pc
		case *ArrV:
			return BVu(uint64(under(c.Args[0].Type()).(*types.Array).Len()), 64), pc
		case *Term:
			switch u := under(c.Args[0].Type()).(type) {
			case *types.Map:
				return ex.mapLen(st, u, x), pc
			case *types.Pointer:
				return BVu(uint64(under(u.Elem()).(*types.Array).Len()), 64), pc
			case *types.Chan:
				l := Fresh("chanlen", BV(64))
				return l, And(pc, BVCmp("bvsle", BVu(0, 64), l))
			}
		}
	case "append":
		return ex.appendOp(fr, c, args, st, pc, pos)
	case "copy":
		dst := args[0].(*SliceV)
		src := args[1].(*SliceV)
		et := under(c.Args[0].Type()).(*types.Slice).Elem()
		n := Ite(BVCmp("bvsle", dst.Len, src.Len), dst.Len, src.Len)
		ex.copyElems(st, et, dst.Arr, dst.Off, src, isString(c.Args[1].Type()), n)
		return n, pc
	case "min", "max":
		t := c.Args[0].Type()
		_, s, ok := intInfo(t)
		if ok {
			r := args[0].(*Term)
			for _, a := range args[1:] {
				op := "bvule"
				if s {
					op = "bvsle"
				}
				cnd := BVCmp(op, r, a.(*Term))
				if b.Name() == "max" {
					r = Ite(cnd, a.(*Term), r)
				} else {
					r = Ite(cnd, r, a.(*Term))
				}
			}
			return r, pc
		}
	case "delete":
		mt := under(c.Args[0].Type()).(*types.Map)
		has, ln, _, ks, ok := mapComps(mt)
		if ok {
			m := args[0].(*Term)
			k := ex.mapKey(mt.Key(), args[1])
			hs := ArrSort(SRef, ArrSort(ks, SBool))
			hc := ex.get(st, has, hs)
			was := And(Neq(m, Null), Select(Select(hc, m), k))
			ex.setAt(st, has, Store(hc, m, Store(Select(hc, m), k, False)), m)
			lc := ex.get(st, ln, ArrSort(SRef, BV(64)))
			ex.setAt(st, ln, Store(lc, m, Ite(was, BVOp("bvsub", Select(lc, m), BVu(1, 64)), Select(lc, m))), m)
			return TupleV{}, pc
		}
	case "print", "println":
		return TupleV{}, pc
	case "recover":
		return zeroVal(types.Universe.Lookup("any").Type()), pc
	case "close":
		ex.ghostEvent(fr, "close", pos, st, pc)
		return TupleV{}, pc
	case "clear":
	case "panic":
		ex.safety(fr, "panic", pos, pc, False, "explicit panic reachable")
		return TupleV{}, False
	}
	ex.unsupported("builtin " + b.Name())
	sig := b.Type().(*types.Signature)
	return freshVal("builtin", resultType(sig)), pc
}

// copyElems: memmove of n elements into (darr, doff) from src.
func (ex *Exec) copyElems(st *State, et types.Type, darr, doff *Term, src *SliceV, srcIsString bool, n *Term) {
	if aggregate(et) {
		ex.unsupported("copy of aggregate elements")
		return
	}
	if n.isLit() && n.val.Sign() == 0 {
		return
	}
	for _, l := range leaves(et) {
		name, s := elemComp(et, l)
		c := ex.get(st, name, s)
		var srcA *Term
		if srcIsString {
			srcA = Select(STR, src.Arr)
		} else {
			srcA = Select(c, src.Arr)
		}
		oldA := Select(c, darr)
		_, inner := arrParts(s)
		if n.isLit() && n.val.Int64() <= 64 {
			na := oldA
			for i := int64(0); i < n.val.Int64(); i++ {
				k := BVu(uint64(i), 64)
				na = Store(na, BVOp("bvadd", doff, k), Select(srcA, BVOp("bvadd", src.Off, k)))
			}
			ex.setAt(st, name, Store(c, darr, na), darr)
			continue
		}
		na := Fresh("cp$"+name, inner)
		k := Bound("k", BV(64))
		in := And(BVCmp("bvsle", doff, k), BVCmp("bvslt", k, BVOp("bvadd", doff, n)))
		val := Ite(in, Select(srcA, BVOp("bvadd", src.Off, BVOp("bvsub", k, doff))), Select(oldA, k))
		ex.pendingAssume = append(ex.pendingAssume, Forall([]*Term{k}, Eq(Select(na, k), val), Select(na, k)))
		ex.setAt(st, name, Store(c, darr, na), darr)
	}
}

func (ex *Exec) appendOp(fr *Frame, c *ssa.CallCommon, args []Val, st *State, pc *Term, pos token.Pos) (Val, *Term) {
	dst := args[0].(*SliceV)
	src := args[1].(*SliceV)
	et := under(c.Args[0].Type()).(*types.Slice).Elem()
	srcStr := isString(c.Args[1].Type())
	if src.Len.isLit() && src.Len.val.Sign() == 0 {
		return dst, pc
	}
	newLen := BVOp("bvadd", dst.Len, src.Len)
	fits := BVCmp("bvsle", newLen, dst.Cap)
	// in place
	inPlace := st.clone()
	ex.copyElems(inPlace, et, dst.Arr, BVOp("bvadd", dst.Off, dst.Len), src, srcStr, src.Len)
	// fresh array: old prefix at offset 0, then src
	grown := st.clone()
	r := ex.alloc(grown, "append")
	if !aggregate(et) {
		ex.zeroElems(grown, et, r)
		ex.copyElems(grown, et, r, BVu(0, 64), dst, false, dst.Len)
		ex.copyElems(grown, et, r, dst.Len, src, srcStr, src.Len)
	} else {
		ex.unsupported("append of aggregate elements")
	}
	ncap := Fresh("appcap", BV(64))
	ex.pendingAssume = append(ex.pendingAssume, Implies(Not(fits), And(BVCmp("bvsle", newLen, ncap), BVCmp("bvsle", ncap, BVu(1<<40, 64)))))
	esz := ex.P.sizeof(et)
	limit := uint64(ex.P.allocLimit) / uint64(maxi(esz, 1))
	ex.addObl(fr, "alloc", pos, And(pc, Not(fits)), BVCmp("bvule", newLen, BVu(limit, 64)), fmt.Sprintf("append grows to at most %d bytes", ex.P.allocLimit), ex.allocTags(), nil)
	pc = And(pc, BVCmp("bvsle", newLen, BVu(1<<40, 64)))
	ex.mergeInto(st, fits, inPlace, grown)
	res := &SliceV{Arr: Ite(fits, dst.Arr, r), Off: Ite(fits, dst.Off, BVu(0, 64)), Len: newLen, Cap: Ite(fits, dst.Cap, ncap)}
	return res, pc
}

// ------------------------------------------------------------------ native models

type nativeRes struct{ v Val }

// nativeModel handles the few library functions that cannot be expressed as contracts
// because they take pointers to scalars (sync/atomic) or have no Go body.
func (ex *Exec) nativeModel(fr *Frame, fn *ssa.Function, args []Val, st *State, pc **Term, pos token.Pos) *nativeRes {
	if fn.Pkg == nil {
		return nil
	}
	pkg := fn.Pkg.Pkg.Path()
	name := fn.Name()
	if pkg == "encoding/binary" {
		if r := ex.binaryModel(fr, fn, args, st, pc, pos); r != nil {
			return r
		}
		return nil
	}
	if pkg == "sync/atomic" && fn.Signature.Recv() == nil && len(args) > 0 {
		p := args[0].(*Term)
		et := fn.Signature.Params().At(0).Type().(*types.Pointer).Elem()
		if !(p.op == "app" && (strings.HasPrefix(p.name, "fld$") || strings.HasPrefix(p.name, "elem$") || strings.HasPrefix(p.name, "glob$"))) {
			g := Neq(p, Null)
			ex.safety(fr, "nil", pos, *pc, g, "atomic operation on nil pointer")
			*pc = And(*pc, g)
		}
		ex.atomicOps[ex.posOf(pos)] = true
		switch {
		case strings.HasPrefix(name, "Add"):
			old := ex.loadPtr(st, et, p).(*Term)
			nv := BVOp("bvadd", old, args[1].(*Term))
			ex.storePtr(st, et, p, nv)
			return &nativeRes{nv}
		case strings.HasPrefix(name, "Load"):
			return &nativeRes{ex.loadPtr(st, et, p)}
		case strings.HasPrefix(name, "Store"):
			ex.storePtr(st, et, p, args[1])
			return &nativeRes{TupleV{}}
		case strings.HasPrefix(name, "Swap"):
			old := ex.loadPtr(st, et, p)
			ex.storePtr(st, et, p, args[1])
			return &nativeRes{old}
		case strings.HasPrefix(name, "CompareAndSwap"):
			old := ex.loadPtr(st, et, p)
			eq := ex.valEq(et, old, args[1])
			nv := iteVal(eq, et, args[2], old)
			ex.storePtr(st, et, p, nv)
			return &nativeRes{eq}
		}
	}
	return nil
}

func isLogPkg(fn *ssa.Function) bool {
	p := fn.Pkg
	if p == nil && fn.Origin() != nil {
		p = fn.Origin().Pkg
	}
	if p == nil {
		if fn.Signature.Recv() != nil {
			return strings.Contains(fn.Signature.Recv().Type().String(), "go.uber.org/zap")
		}
		return false
	}
	return strings.HasPrefix(p.Pkg.Path(), "go.uber.org/zap")
}

// logCall: logging is dropped: a no-op that returns an arbitrary well-formed value.
func (ex *Exec) logCall(sig *types.Signature, st *State, pc *Term) (Val, *Term) {
	ex.assumes["calls into go.uber.org/zap are no-ops that neither panic nor write program state"] = true
	rt := resultType(sig)
	rv := freshVal("log", rt)
	pc = And(pc, ex.wfVal(rt, rv, st.now))
	if sig.Results().Len() == 1 {
		// non-nil results for builder-style calls (Logger.Core(), Logger.With(), ...)
		if _, isPtr := under(rt).(*types.Pointer); isPtr {
			pc = And(pc, Neq(rv.(*Term), Null))
		}
		if iv, ok := rv.(*IfaceV); ok {
			pc = And(pc, Neq(iv.Tag, IntLit(0)))
		}
	}
	return rv, pc
}

// reachableComps lists the heap components reachable by type from a value of type t.
func (ex *Exec) reachableComps(t types.Type, seen map[string]bool, out *[]string, depth int) {
	k := typeKey(t)
	if seen["T:"+k] || depth > 6 {
		return
	}
	seen["T:"+k] = true
	add := func(n, srt string) {
		if !seen[n] {
			seen[n] = true
			*out = append(*out, n)
			if _, ok := compSorts[n]; !ok {
				compSorts[n] = srt
			}
		}
	}
	switch u := under(t).(type) {
	case *types.Pointer:
		el := u.Elem()
		switch eu := under(el).(type) {
		case *types.Struct:
			for i := 0; i < eu.NumFields(); i++ {
				ft := eu.Field(i).Type()
				if aggregate(ft) {
					ex.reachableComps(types.NewPointer(ft), seen, out, depth+1)
					continue
				}
				for _, l := range leaves(ft) {
					n, srt := fieldComp(el, i, l)
					add(n, srt)
				}
				ex.reachableComps(ft, seen, out, depth+1)
			}
		case *types.Array:
			ex.reachableComps(types.NewSlice(eu.Elem()), seen, out, depth+1)
		default:
			for _, l := range leaves(el) {
				n, srt := cellComp(el, l)
				add(n, srt)
			}
			ex.reachableComps(el, seen, out, depth+1)
		}
	case *types.Slice:
		et := u.Elem()
		if aggregate(et) {
			ex.reachableComps(types.NewPointer(et), seen, out, depth+1)
		} else {
			for _, l := range leaves(et) {
				n, srt := elemComp(et, l)
				add(n, srt)
			}
			ex.reachableComps(et, seen, out, depth+1)
		}
	case *types.Struct:
		for i := 0; i < u.NumFields(); i++ {
			ex.reachableComps(u.Field(i).Type(), seen, out, depth+1)
		}
	case *types.Map:
		has, ln, vals, ks, ok := mapComps(u)
		if ok {
			add(has, ArrSort(SRef, ArrSort(ks, SBool)))
			add(ln, ArrSort(SRef, BV(64)))
			for i, v := range vals {
				add(v, ArrSort(SRef, ArrSort(ks, leaves(u.Elem())[i].sort)))
			}
		}
		ex.reachableComps(u.Elem(), seen, out, depth+1)
	}
}

func calleeName(c *ssa.CallCommon) string {
	if c.IsInvoke() {
		return c.Method.Name()
	}
	if b, ok := c.Value.(*ssa.Builtin); ok {
		return b.Name()
	}
	if f := c.StaticCallee(); f != nil {
		return f.Name()
	}
	return ""
}

// callSiteAsserts emits the `atcall` obligations of the enclosing function's contract.
// With kind "aftercall" it applies the ghost updates `aftercall <callee> <n> g(key) == value`
// (a ghost assignment in the caller's scope just after the call returns).
func (ex *Exec) callSiteAsserts(fr *Frame, in ssa.Instruction, c *ssa.CallCommon, st *State, pc *Term, pos token.Pos, kind string) {
	if fr.ct == nil || ex.discover {
		return
	}
	name := calleeName(c)
	if name == "" {
		return
	}
	has := false
	for _, cl := range fr.ct.Clauses {
		if cl.Kind == kind && cl.Callee == name {
			has = true
		}
	}
	if !has {
		return
	}
	if fr.callOrd == nil {
		// ordinals of the calls of each name in source-position order
		type site struct {
			in  ssa.Instruction
			pos token.Pos
			n   string
		}
		var sites []site
		for _, b := range fr.fn.Blocks {
			for _, i := range b.Instrs {
				if cc, ok := i.(ssa.CallInstruction); ok {
					if n := calleeName(cc.Common()); n != "" {
						p := i.Pos()
						if !p.IsValid() {
							p = cc.Common().Pos()
						}
						sites = append(sites, site{i, p, n})
					}
				}
			}
		}
		sort.SliceStable(sites, func(a, b int) bool { return sites[a].pos < sites[b].pos })
		fr.callOrd = map[ssa.Instruction]int{}
		cnt := map[string]int{}
		for _, s := range sites {
			cnt[s.n]++
			fr.callOrd[s.in] = cnt[s.n]
		}
	}
	ord := fr.callOrd[in]
	idx := -1
	for k, i := range in.Block().Instrs {
		if i == in {
			idx = k
		}
	}
	for _, cl := range fr.ct.Clauses {
		if cl.Kind != kind || cl.Callee != name || cl.Loop != ord || cl.Expr == nil {
			continue
		}
		env := ex.localEnv(fr, in.Block(), st)
		env.atIdx = idx
		func() {
			defer func() {
				if r := recover(); r != nil {
					if se, ok := r.(specError); ok {
						ex.P.bindErrors = append(ex.P.bindErrors, fmt.Sprintf("%s atcall %s#%d: %s", fr.ct.Key, name, ord, se.msg))
						return
					}
					panic(r)
				}
			}()
			if kind == "aftercall" {
				e := cl.Expr
				if e.Op != "==" || len(e.Args) != 2 {
					specFail("aftercall wants ghost(key) == value")
				}
				locs := ex.evalLocs(e.Args[0], env)
				v, vt := ex.evalSpec(e.Args[1], env)
				_ = vt
				fs := flat(v)
				if len(fs) != len(locs) {
					specFail("aftercall: value shape does not match the ghost")
				}
				for i, l := range locs {
					val := fs[i]
					arr := ex.get(st, l.comp, l.sort)
					if ArrSort(SRef, val.sort) != l.sort {
						specFail("aftercall: sort mismatch %s vs %s", val.sort, l.sort)
					}
					ex.setAt(st, l.comp, Store(arr, l.ref, val), l.ref)
				}
				return
			}
			g := ex.evalBool(cl.Expr, env)
			ex.addObl(fr, "atcall", pos, pc, g, fmt.Sprintf("before call %d of %s: %s", ord, name, cl.Src), cl.Tags, cl)
		}()
	}
}
