package main

// Memory model: Burstall-Bornat components over an uninterpreted Ref sort.

import (
	"fmt"
	"go/types"
	"sort"
	"strings"
)

type State struct {
	comp  map[string]*Term
	now   *Term
	extra map[string]Val // defer bookkeeping, ghost locals
	extyp map[string]types.Type
}

func newState() *State {
	return &State{comp: map[string]*Term{}, extra: map[string]Val{}, extyp: map[string]types.Type{}}
}

func (s *State) clone() *State {
	n := &State{comp: make(map[string]*Term, len(s.comp)), now: s.now, extra: make(map[string]Val, len(s.extra)), extyp: s.extyp}
	for k, v := range s.comp {
		n.comp[k] = v
	}
	for k, v := range s.extra {
		n.extra[k] = v
	}
	return n
}

// compSorts remembers the sort of every component ever touched.
var compSorts = map[string]string{}

// nowOf: creation clock of a base component variable (by term id).
var nowOf = map[int]*Term{}

func (ex *Exec) initialComp(name, sort string) *Term {
	if s, ok := compSorts[name]; ok && s != sort {
		panic(fmt.Sprintf("component %s used at sorts %s and %s", name, s, sort))
	}
	compSorts[name] = sort
	v := Var("H0$"+name, sort)
	if _, ok := nowOf[v.id]; !ok {
		nowOf[v.id] = Var("now0", SInt)
	}
	return v
}

func (ex *Exec) get(st *State, name, sort string) *Term {
	if t, ok := st.comp[name]; ok {
		return t
	}
	return ex.initialComp(name, sort)
}

func (ex *Exec) setAt(st *State, name string, t *Term, ref *Term) {
	compSorts[name] = t.sort
	st.comp[name] = t
	ex.noteWriteAt(name, ref)
}

// noteWriteAt records a write to component name at object ref (nil: anywhere) for loop probes.
func (ex *Exec) noteWriteAt(name string, ref *Term) {
	ex.written[name] = true
	for _, w := range ex.wlogs {
		if ref == nil {
			w.whole[name] = true
			continue
		}
		m := w.refs[name]
		if m == nil {
			m = map[int]*Term{}
			w.refs[name] = m
		}
		m[ref.id] = ref
	}
}

func (ex *Exec) noteExtra(key string) {
	for _, w := range ex.wlogs {
		w.extra[key] = true
	}
}

// havocComp replaces a whole component by a fresh one created at the current clock.
func (ex *Exec) havocComp(st *State, name string) {
	sort, ok := compSorts[name]
	if !ok {
		return
	}
	if ex.collect != nil {
		*ex.collect = append(*ex.collect, name)
		return
	}
	v := Fresh("H$"+name, sort)
	nowOf[v.id] = st.now
	old := ex.get(st, name, sort)
	st.comp[name] = v
	ex.noteWriteAt(name, nil)
	// immutable objects keep their content
	for _, im := range ex.immutable[name] {
		ex.pendingAssume = append(ex.pendingAssume, Eq(Select(v, im), Select(old, im)))
	}
	if !ex.loopHavoc {
		// a callee cannot reach a local cell whose address never left this function
		for _, lc := range ex.localCells[name] {
			ex.pendingAssume = append(ex.pendingAssume, Eq(Select(v, lc), Select(old, lc)))
		}
	}
}

type fieldInfo struct {
	owner types.Type // struct type (named when available)
	idx   int
}

var (
	fldTab  = map[string]fieldInfo{}  // fld$... / sub$... function name -> field
	elemTab = map[string]types.Type{} // elem$... / elemref$... function name -> element type
)

func structOf(t types.Type) *types.Struct {
	s, _ := under(t).(*types.Struct)
	return s
}

func aggregate(t types.Type) bool {
	switch under(t).(type) {
	case *types.Struct, *types.Array:
		return true
	}
	return false
}

var subKinds = map[string]int64{}

// subRef is the identity of a struct- or array-typed field embedded by value in the object at base.
func subRef(owner types.Type, i int, base *Term) *Term {
	name := sanitize(fmt.Sprintf("sub$%s$%d", typeKey(owner), i))
	fldTab[name] = fieldInfo{owner, i}
	r := App(name, SRef, base)
	if _, ok := subKinds[name]; !ok {
		subKinds[name] = int64(len(subKinds) + 1)
	}
	r.AddFact(Eq(App(name+"$inv", SRef, r), base))
	r.AddFact(Eq(birth(r), birth(base)))
	r.AddFact(Eq(App("kind", SInt, r), IntLit(subKinds[name])))
	r.AddFact(Neq(r, Null))
	return r
}

func elemRef(et types.Type, arr, idx *Term) *Term {
	name := sanitize("elemref$" + typeKey(et))
	elemTab[name] = et
	r := App(name, SRef, arr, idx)
	r.AddFact(Eq(App(name+"$arr", SRef, r), arr))
	r.AddFact(Eq(App(name+"$idx", BV(64), r), idx))
	r.AddFact(Eq(birth(r), birth(arr)))
	r.AddFact(Eq(App("kind", SInt, r), IntLit(-1)))
	r.AddFact(Neq(r, Null))
	return r
}

func fieldPtr(owner types.Type, i int, base *Term) *Term {
	ft := structOf(owner).Field(i).Type()
	if aggregate(ft) {
		return subRef(owner, i, base)
	}
	name := sanitize(fmt.Sprintf("fld$%s$%d", typeKey(owner), i))
	fldTab[name] = fieldInfo{owner, i}
	r := App(name, SRef, base)
	r.AddFact(Neq(r, Null))
	return r
}

func elemPtr(et types.Type, arr, idx *Term) *Term {
	if aggregate(et) {
		return elemRef(et, arr, idx)
	}
	name := sanitize("elem$" + storageKey(et))
	elemTab[name] = et
	r := App(name, SRef, arr, idx)
	r.AddFact(Neq(r, Null))
	return r
}

func fieldComp(owner types.Type, i int, l leaf) (string, string) {
	f := structOf(owner).Field(i)
	return fmt.Sprintf("%s#%s%s", typeKey(owner), f.Name(), l.path), ArrSort(SRef, l.sort)
}

func elemComp(et types.Type, l leaf) (string, string) {
	return fmt.Sprintf("elem:%s%s", storageKey(et), l.path), ArrSort(SRef, ArrSort(BV(64), l.sort))
}

func cellComp(t types.Type, l leaf) (string, string) {
	return fmt.Sprintf("cell:%s%s", storageKey(t), l.path), ArrSort(SRef, l.sort)
}

// refFact attaches "allocated before the component was created" to a Ref loaded from memory.
func (ex *Exec) loadFacts(st *State, t *Term, l leaf) {
	if t.op == "var" || t.isLit() {
		return
	}
	switch {
	case l.sort == SRef:
		// walk to the base component
		base := t
		var path []*Term
		ok := true
		for ok {
			switch base.op {
			case "select":
				path = append(path, base.args[1])
				base = base.args[0]
			case "store":
				base = base.args[0]
			default:
				ok = false
			}
		}
		if n, has := nowOf[base.id]; has && base.op == "var" {
			inner := base
			for i := len(path) - 1; i >= 0; i-- {
				inner = TS.mk(&Term{op: "select", args: []*Term{inner, path[i]}, sort: selSort(inner.sort)})
			}
			// content that was in the component when it was created (havoc'd) is older than
			// that moment -- for objects that existed then; what a component "holds" at a
			// reference allocated later is unconstrained until it is stored to
			if len(path) > 0 && path[len(path)-1].sort == SRef {
				t.AddFact(Implies(IntOp("<", birth(path[len(path)-1]), n), IntOp("<", birth(inner), n)))
			} else {
				t.AddFact(IntOp("<", birth(inner), n))
			}
		}
		t.AddFact(IntOp("<", birth(t), st.now))
	}
}

func selSort(arr string) string {
	_, e := arrParts(arr)
	return e
}

func wfSliceFacts(v *SliceV) *Term {
	max := BVu(1<<40, 64)
	zero := BVu(0, 64)
	fs := []*Term{BVCmp("bvsle", zero, v.Off), BVCmp("bvsle", v.Off, max), BVCmp("bvsle", zero, v.Len)}
	if v.Cap != nil {
		fs = append(fs, BVCmp("bvsle", v.Len, v.Cap), BVCmp("bvsle", v.Cap, max))
	} else {
		fs = append(fs, BVCmp("bvsle", v.Len, max))
	}
	return And(fs...)
}

// wfVal: representation invariants of a value of type t (slice bounds, birth of refs).
func (ex *Exec) wfVal(t types.Type, v Val, now *Term) *Term {
	switch u := under(t).(type) {
	case *types.Slice:
		sv := v.(*SliceV)
		return And(wfSliceFacts(sv), IntOp("<", birth(sv.Arr), now))
	case *types.Basic:
		if isString(u) {
			return wfSliceFacts(v.(*SliceV))
		}
		if u.Kind() == types.UnsafePointer {
			return IntOp("<", birth(v.(*Term)), now)
		}
	case *types.Pointer, *types.Map, *types.Chan:
		return IntOp("<", birth(v.(*Term)), now)
	case *types.Signature:
		return True
	case *types.Interface:
		iv := v.(*IfaceV)
		return And(IntOp("<", birth(iv.Data), now), IntOp("<=", IntLit(0), iv.Tag), Eq(Eq(iv.Tag, IntLit(0)), Eq(iv.Data, Null)))
	case *types.Struct:
		sv := v.(*StructV)
		var fs []*Term
		for i := 0; i < u.NumFields(); i++ {
			fs = append(fs, ex.wfVal(u.Field(i).Type(), sv.F[i], now))
		}
		return And(fs...)
	case *types.Tuple:
		tv := v.(TupleV)
		var fs []*Term
		for i := 0; i < u.Len(); i++ {
			fs = append(fs, ex.wfVal(u.At(i).Type(), tv[i], now))
		}
		return And(fs...)
	}
	return True
}

// loadLeaves reads the leaves of a non-aggregate value through get(leaf) and attaches facts.
func (ex *Exec) loadLeaves(st *State, t types.Type, get func(l leaf) *Term) Val {
	ls := leaves(t)
	ts := make([]*Term, len(ls))
	for i, l := range ls {
		ts[i] = get(l)
		ex.loadFacts(st, ts[i], l)
	}
	v := unflat(t, ts)
	switch x := v.(type) {
	case *SliceV:
		if x.Len.op == "select" && x.Off.op == "select" && (x.Cap == nil || x.Cap.op == "select") {
			// read straight from memory: the three leaves belong together, the fact can travel with
			// the length term
			x.Len.AddFact(wfSliceFacts(x))
		} else if x.Len.op != "bv" {
			// a merged or derived value: after a merge the same length term can sit in slices whose
			// capacity was computed on another path, so the fact stays path-local
			ex.pendingAssume = append(ex.pendingAssume, wfSliceFacts(x))
		}
	case *IfaceV:
		if x.Tag.op != "int" {
			x.Tag.AddFact(And(IntOp("<=", IntLit(0), x.Tag), Eq(Eq(x.Tag, IntLit(0)), Eq(x.Data, Null))))
		}
	}
	return v
}

func (ex *Exec) loadField(st *State, owner types.Type, i int, base *Term) Val {
	ft := structOf(owner).Field(i).Type()
	if aggregate(ft) {
		return ex.loadAt(st, ft, subRef(owner, i, base))
	}
	return ex.loadLeaves(st, ft, func(l leaf) *Term {
		n, s := fieldComp(owner, i, l)
		return Select(ex.get(st, n, s), base)
	})
}

func (ex *Exec) storeField(st *State, owner types.Type, i int, base *Term, v Val) {
	ft := structOf(owner).Field(i).Type()
	if aggregate(ft) {
		ex.storeAt(st, ft, subRef(owner, i, base), v)
		return
	}
	fs := flat(v)
	for k, l := range leaves(ft) {
		n, s := fieldComp(owner, i, l)
		ex.setAt(st, n, Store(ex.get(st, n, s), base, fs[k]), base)
	}
}

func (ex *Exec) loadElem(st *State, et types.Type, arr, idx *Term) Val {
	if aggregate(et) {
		return ex.loadAt(st, et, elemRef(et, arr, idx))
	}
	return ex.loadLeaves(st, et, func(l leaf) *Term {
		n, s := elemComp(et, l)
		return Select(Select(ex.get(st, n, s), arr), idx)
	})
}

func (ex *Exec) storeElem(st *State, et types.Type, arr, idx *Term, v Val) {
	if aggregate(et) {
		ex.storeAt(st, et, elemRef(et, arr, idx), v)
		return
	}
	fs := flat(v)
	for k, l := range leaves(et) {
		n, s := elemComp(et, l)
		c := ex.get(st, n, s)
		ex.setAt(st, n, Store(c, arr, Store(Select(c, arr), idx, fs[k])), arr)
	}
}

// loadAt loads a value of type t whose storage is the object ref.
func (ex *Exec) loadAt(st *State, t types.Type, ref *Term) Val {
	switch u := under(t).(type) {
	case *types.Struct:
		sv := &StructV{}
		for i := 0; i < u.NumFields(); i++ {
			sv.F = append(sv.F, ex.loadField(st, t, i, ref))
		}
		return sv
	case *types.Array:
		if aggregate(u.Elem()) {
			ex.unsupported("array of aggregates loaded as a value: " + t.String())
			return freshVal("arrval", t)
		}
		av := &ArrV{}
		for _, l := range leaves(u.Elem()) {
			n, s := elemComp(u.Elem(), l)
			inner := Select(ex.get(st, n, s), ref)
			if ref.op == "app" && strings.HasPrefix(ref.name, "aview$") && u.Len() <= 64 {
				// a view at an offset: rebuild the array value element by element
				src := Select(ex.get(st, n, s), ref.args[0])
				_, isort := arrParts(s)
				a := zeroOfSort(isort)
				for i := int64(0); i < u.Len(); i++ {
					a = Store(a, BVu(uint64(i), 64), Select(src, BVOp("bvadd", ref.args[1], BVu(uint64(i), 64))))
				}
				inner = a
			} else if ref.op == "app" && strings.HasPrefix(ref.name, "aview$") {
				ex.unsupported("large array view loaded as a value")
			}
			av.A = append(av.A, inner)
		}
		return av
	}
	return ex.loadLeaves(st, t, func(l leaf) *Term {
		n, s := cellComp(t, l)
		return Select(ex.get(st, n, s), ref)
	})
}

func (ex *Exec) storeAt(st *State, t types.Type, ref *Term, v Val) {
	switch u := under(t).(type) {
	case *types.Struct:
		sv := v.(*StructV)
		for i := 0; i < u.NumFields(); i++ {
			ex.storeField(st, t, i, ref, sv.F[i])
		}
		return
	case *types.Array:
		if aggregate(u.Elem()) {
			ex.unsupported("array of aggregates stored as a value: " + t.String())
			return
		}
		av := v.(*ArrV)
		for k, l := range leaves(u.Elem()) {
			n, s := elemComp(u.Elem(), l)
			ex.setAt(st, n, Store(ex.get(st, n, s), ref, av.A[k]), ref)
		}
		return
	}
	fs := flat(v)
	for k, l := range leaves(t) {
		n, s := cellComp(t, l)
		ex.setAt(st, n, Store(ex.get(st, n, s), ref, fs[k]), ref)
	}
}

// loadPtr / storePtr dereference a pointer term, decoding structural pointers.
func (ex *Exec) loadPtr(st *State, t types.Type, p *Term) Val {
	switch {
	case p.op == "ite":
		return iteVal(p.args[0], t, ex.loadPtr(st, t, p.args[1]), ex.loadPtr(st, t, p.args[2]))
	case p.op == "app" && strings.HasPrefix(p.name, "fld$"):
		fi := fldTab[p.name]
		return ex.loadField(st, fi.owner, fi.idx, p.args[0])
	case p.op == "app" && strings.HasPrefix(p.name, "elem$"):
		return ex.loadElem(st, elemTab[p.name], p.args[0], p.args[1])
	case p.op == "app" && strings.HasPrefix(p.name, "glob$"):
		return ex.loadGlobal(st, p.name, t)
	}
	return ex.loadAt(st, t, p)
}

func (ex *Exec) storePtr(st *State, t types.Type, p *Term, v Val) {
	switch {
	case p.op == "ite":
		// split: each branch stores conditionally
		a, b := st.clone(), st.clone()
		ex.storePtr(a, t, p.args[1], v)
		ex.storePtr(b, t, p.args[2], v)
		ex.mergeInto(st, p.args[0], a, b)
		return
	case p.op == "app" && strings.HasPrefix(p.name, "fld$"):
		fi := fldTab[p.name]
		ex.storeField(st, fi.owner, fi.idx, p.args[0], v)
		return
	case p.op == "app" && strings.HasPrefix(p.name, "elem$"):
		ex.storeElem(st, elemTab[p.name], p.args[0], p.args[1], v)
		return
	case p.op == "app" && strings.HasPrefix(p.name, "glob$"):
		ex.storeGlobal(st, p.name, t, v)
		return
	}
	ex.storeAt(st, t, p, v)
}

func (ex *Exec) loadGlobal(st *State, gname string, t types.Type) Val {
	if v := ex.constGlobalVal(gname, t); v != nil {
		return v
	}
	if ex.initMode && strings.HasSuffix(gname, "init$guard") {
		if _, set := st.comp[gname]; !set {
			return False
		}
	}
	if aggregate(t) {
		return ex.loadAt(st, t, Var(gname+"$obj", SRef))
	}
	return ex.loadLeaves(st, t, func(l leaf) *Term {
		return ex.get(st, gname+l.path, l.sort)
	})
}

func (ex *Exec) storeGlobal(st *State, gname string, t types.Type, v Val) {
	if aggregate(t) {
		ex.storeAt(st, t, Var(gname+"$obj", SRef), v)
		return
	}
	fs := flat(v)
	for k, l := range leaves(t) {
		ex.setAt(st, gname+l.path, fs[k], nil)
	}
}

// mergeInto sets dst to ite(c, a, b) component-wise.
func (ex *Exec) mergeInto(dst *State, c *Term, a, b *State) {
	keys := map[string]bool{}
	for k := range a.comp {
		keys[k] = true
	}
	for k := range b.comp {
		keys[k] = true
	}
	for k := range keys {
		s := compSorts[k]
		x, y := ex.get(a, k, s), ex.get(b, k, s)
		if x == y {
			dst.comp[k] = x
		} else {
			dst.comp[k] = Ite(c, x, y)
		}
	}
	if a.now != b.now {
		dst.now = Ite(c, a.now, b.now)
	} else {
		dst.now = a.now
	}
	ek := map[string]bool{}
	for k := range a.extra {
		ek[k] = true
	}
	for k := range b.extra {
		ek[k] = true
	}
	for k := range ek {
		x, okx := a.extra[k]
		y, oky := b.extra[k]
		t := dst.extyp[k]
		if !okx {
			x = zeroVal(t)
		}
		if !oky {
			y = zeroVal(t)
		}
		dst.extra[k] = iteVal(c, t, x, y)
	}
}

// alloc returns a fresh object identity.
func (ex *Exec) alloc(st *State, hint string) *Term {
	r := Fresh("obj$"+hint, SRef)
	if ex.initMode && st.now.isLit() {
		r.AddFact(And(Eq(birth(r), st.now), Eq(App("kind", SInt, r), IntLit(0)), Neq(r, Null)))
	} else {
		ex.pendingAssume = append(ex.pendingAssume, Eq(birth(r), st.now), Eq(App("kind", SInt, r), IntLit(0)), Neq(r, Null))
	}
	st.now = IntOp("+", st.now, IntLit(1))
	// ghost state of a new object starts at its zero value
	for _, g := range ex.P.cs.Ghosts {
		if g.Immutable || g.Ret == "seq" || ex.initMode {
			continue
		}
		func() {
			defer func() { recover() }()
			for _, l := range leaves(ex.resolveType(g.Ret, g.Pkg)) {
				// stated as a fact about the (so far unconstrained) entry of the new reference,
				// not as a store: the ghost component stays the same term, so that quantified
				// knowledge about the existing objects survives an allocation
				n, s := "ghost:"+g.Name+l.path, ArrSort(SRef, l.sort)
				compSorts[n] = s
				ex.pendingAssume = append(ex.pendingAssume, Eq(Select(ex.get(st, n, s), r), zeroOfSort(l.sort)))
			}
		}()
	}
	return r
}

func sortedKeys(m map[string]bool) []string {
	var out []string
	for k := range m {
		out = append(out, k)
	}
	sort.Strings(out)
	return out
}
