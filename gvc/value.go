package main

// Symbolic values: the shape of a Go value as a tree of SMT terms, and generic operations
// (flatten / unflatten / ite / fresh) driven by go/types.

import (
	"fmt"
	"go/types"
	"strings"

	"golang.org/x/tools/go/ssa"
)

type Val interface{}

// SliceV is a slice (or, with Cap == nil, a string).
type SliceV struct {
	Arr, Off, Len, Cap *Term
}

type IfaceV struct {
	Tag  *Term // Int: 0 = nil interface
	Data *Term // Ref
}

type StructV struct {
	F []Val
}

// ArrV is an array value held in a register: one SMT array per leaf of the element type.
type ArrV struct {
	A []*Term
}

type TupleV []Val

// FuncV is a function value whose target is statically known.
type FuncV struct {
	Fn   *ssa.Function
	Bind []Val
	Recv Val // bound method receiver (nil otherwise)
	Ref  *Term
}

var funcTab = map[int]*FuncV{} // Ref term id -> function value

func under(t types.Type) types.Type {
	for {
		switch x := t.(type) {
		case *types.Named:
			t = x.Underlying()
		case *types.Alias:
			t = types.Unalias(x)
		default:
			return t
		}
	}
}

func typeKey(t types.Type) string {
	t = types.Unalias(t)
	switch x := t.(type) {
	case *types.Named:
		if x.Obj().Pkg() == nil {
			return x.Obj().Name()
		}
		s := x.Obj().Pkg().Path() + "." + x.Obj().Name()
		if x.TypeArgs() != nil && x.TypeArgs().Len() > 0 {
			s += "[" + types.TypeString(x.TypeArgs().At(0), nil) + "]"
		}
		return s
	case *types.Pointer:
		return "*" + typeKey(x.Elem())
	case *types.Slice:
		return "[]" + typeKey(x.Elem())
	case *types.Map:
		return "map[" + typeKey(x.Key()) + "]" + typeKey(x.Elem())
	case *types.Array:
		return fmt.Sprintf("[%d]%s", x.Len(), typeKey(x.Elem()))
	case *types.Chan:
		return "chan " + typeKey(x.Elem())
	case *types.Interface:
		if x.NumMethods() == 0 {
			return "any"
		}
	case *types.Basic:
		switch x.Kind() {
		case types.Uint8:
			return "uint8"
		case types.Int32:
			return "int32"
		case types.UntypedInt:
			return "int"
		case types.UntypedBool:
			return "bool"
		case types.UntypedString:
			return "string"
		case types.UntypedRune:
			return "int32"
		}
		return x.Name()
	}
	return types.TypeString(t, nil)
}

// storageKey names the element/cell storage of a type: basic types are keyed by their
// underlying kind so that []byte and []uint8 share storage.
func storageKey(t types.Type) string {
	if b, ok := under(t).(*types.Basic); ok {
		return typeKey(b)
	}
	// storage is separated by static type: Go's type system keeps a []*A and a []*B apart
	switch u := under(t).(type) {
	case *types.Pointer:
		return "ref:" + typeKey(u.Elem())
	case *types.Map, *types.Chan, *types.Signature:
		return "ref:" + typeKey(types.Unalias(t))
	case *types.Interface:
		return "iface:" + typeKey(t)
	case *types.Slice:
		return "slice:" + typeKey(u.Elem())
	}
	return typeKey(t)
}

type leaf struct {
	path string
	sort string
}

func intInfo(t types.Type) (w int, signed bool, ok bool) {
	b, isb := under(t).(*types.Basic)
	if !isb {
		return 0, false, false
	}
	switch b.Kind() {
	case types.Int8:
		return 8, true, true
	case types.Int16:
		return 16, true, true
	case types.Int32, types.UntypedRune:
		return 32, true, true
	case types.Int64, types.Int, types.UntypedInt:
		return 64, true, true
	case types.Uint8:
		return 8, false, true
	case types.Uint16:
		return 16, false, true
	case types.Uint32:
		return 32, false, true
	case types.Uint64, types.Uint, types.Uintptr:
		return 64, false, true
	}
	return 0, false, false
}

func isString(t types.Type) bool {
	b, ok := under(t).(*types.Basic)
	return ok && b.Info()&types.IsString != 0
}

func isBoolT(t types.Type) bool {
	b, ok := under(t).(*types.Basic)
	return ok && b.Info()&types.IsBoolean != 0
}

func isFloat(t types.Type) bool {
	b, ok := under(t).(*types.Basic)
	return ok && (b.Info()&types.IsFloat != 0 || b.Info()&types.IsComplex != 0)
}

func leaves(t types.Type) []leaf {
	switch u := under(t).(type) {
	case *types.Basic:
		if w, _, ok := intInfo(u); ok {
			return []leaf{{"", BV(w)}}
		}
		if isBoolT(u) {
			return []leaf{{"", SBool}}
		}
		if isString(u) {
			return []leaf{{".arr", SRef}, {".off", BV(64)}, {".len", BV(64)}}
		}
		if isFloat(u) {
			return []leaf{{"", SFloat}}
		}
		if u.Kind() == types.UnsafePointer || u.Kind() == types.UntypedNil {
			return []leaf{{"", SRef}}
		}
		panic("leaves: basic " + u.String())
	case *types.Pointer, *types.Map, *types.Chan, *types.Signature:
		return []leaf{{"", SRef}}
	case *types.Slice:
		return []leaf{{".arr", SRef}, {".off", BV(64)}, {".len", BV(64)}, {".cap", BV(64)}}
	case *types.Interface:
		return []leaf{{".tag", SInt}, {".data", SRef}}
	case *types.Struct:
		var out []leaf
		for i := 0; i < u.NumFields(); i++ {
			for _, l := range leaves(u.Field(i).Type()) {
				out = append(out, leaf{fmt.Sprintf(".%s%s", u.Field(i).Name(), l.path), l.sort})
			}
		}
		return out
	case *types.Array:
		var out []leaf
		for _, l := range leaves(u.Elem()) {
			out = append(out, leaf{"[]" + l.path, ArrSort(BV(64), l.sort)})
		}
		return out
	case *types.Tuple:
		var out []leaf
		for i := 0; i < u.Len(); i++ {
			for _, l := range leaves(u.At(i).Type()) {
				out = append(out, leaf{fmt.Sprintf("#%d%s", i, l.path), l.sort})
			}
		}
		return out
	case *types.TypeParam:
		panic("leaves: type parameter")
	}
	panic("leaves: " + t.String())
}

func flat(v Val) []*Term {
	switch x := v.(type) {
	case *Term:
		return []*Term{x}
	case *SliceV:
		if x.Cap == nil {
			return []*Term{x.Arr, x.Off, x.Len}
		}
		return []*Term{x.Arr, x.Off, x.Len, x.Cap}
	case *IfaceV:
		return []*Term{x.Tag, x.Data}
	case *StructV:
		var out []*Term
		for _, f := range x.F {
			out = append(out, flat(f)...)
		}
		return out
	case *ArrV:
		return x.A
	case TupleV:
		var out []*Term
		for _, f := range x {
			out = append(out, flat(f)...)
		}
		return out
	case *FuncV:
		if x.Ref == nil {
			x.Ref = Fresh("fn$"+x.Fn.Name(), SRef)
			funcTab[x.Ref.id] = x
		}
		return []*Term{x.Ref}
	case nil:
		return nil
	}
	panic(fmt.Sprintf("flat: %T", v))
}

func unflat(t types.Type, ts []*Term) Val {
	v, rest := unflat1(t, ts)
	if len(rest) != 0 {
		panic("unflat: leftover leaves for " + t.String())
	}
	return v
}

func unflat1(t types.Type, ts []*Term) (Val, []*Term) {
	switch u := under(t).(type) {
	case *types.Basic:
		if isString(u) {
			return &SliceV{Arr: ts[0], Off: ts[1], Len: ts[2]}, ts[3:]
		}
		return ts[0], ts[1:]
	case *types.Pointer, *types.Map, *types.Chan:
		return ts[0], ts[1:]
	case *types.Signature:
		if f, ok := funcTab[ts[0].id]; ok {
			return f, ts[1:]
		}
		return ts[0], ts[1:]
	case *types.Slice:
		return &SliceV{Arr: ts[0], Off: ts[1], Len: ts[2], Cap: ts[3]}, ts[4:]
	case *types.Interface:
		return &IfaceV{Tag: ts[0], Data: ts[1]}, ts[2:]
	case *types.Struct:
		sv := &StructV{}
		for i := 0; i < u.NumFields(); i++ {
			var f Val
			f, ts = unflat1(u.Field(i).Type(), ts)
			sv.F = append(sv.F, f)
		}
		return sv, ts
	case *types.Array:
		n := len(leaves(u.Elem()))
		return &ArrV{A: ts[:n]}, ts[n:]
	case *types.Tuple:
		var tv TupleV
		for i := 0; i < u.Len(); i++ {
			var f Val
			f, ts = unflat1(u.At(i).Type(), ts)
			tv = append(tv, f)
		}
		return tv, ts
	}
	panic("unflat: " + t.String())
}

func freshVal(prefix string, t types.Type) Val {
	ls := leaves(t)
	ts := make([]*Term, len(ls))
	for i, l := range ls {
		ts[i] = Fresh(prefix+l.path, l.sort)
	}
	return unflat(t, ts)
}

func varVal(prefix string, t types.Type) Val {
	ls := leaves(t)
	ts := make([]*Term, len(ls))
	for i, l := range ls {
		ts[i] = Var(prefix+l.path, l.sort)
	}
	return unflat(t, ts)
}

func iteVal(c *Term, t types.Type, a, b Val) Val {
	if c == True {
		return a
	}
	if c == False {
		return b
	}
	// keep statically known function values when both sides agree
	if fa, ok := a.(*FuncV); ok {
		if fb, ok := b.(*FuncV); ok && fa == fb {
			return a
		}
	}
	fa, fb := flat(a), flat(b)
	out := make([]*Term, len(fa))
	for i := range fa {
		out[i] = Ite(c, fa[i], fb[i])
	}
	return unflat(t, out)
}

func zeroVal(t types.Type) Val {
	ls := leaves(t)
	ts := make([]*Term, len(ls))
	for i, l := range ls {
		ts[i] = zeroOfSort(l.sort)
	}
	return unflat(t, ts)
}

func zeroOfSort(s string) *Term {
	switch {
	case s == SBool:
		return False
	case s == SInt:
		return IntLit(0)
	case s == SRef:
		return Null
	case s == SFloat:
		return Var("float$zero", SFloat)
	case strings.HasPrefix(s, "(_ BitVec"):
		return BVu(0, bvWidth(s))
	case strings.HasPrefix(s, "(Array"):
		_, e := arrParts(s)
		return ConstArr(s, zeroOfSort(e))
	}
	panic("zeroOfSort " + s)
}

// typeTag gives each dynamic type a positive integer (0 is the nil interface).
var typeTags = map[string]int64{}
var typeTagNames = map[int64]string{}
var typeByKey = map[string]types.Type{}

func typeTag(t types.Type) *Term {
	k := typeKey(t)
	if _, ok := typeTags[k]; !ok {
		typeTags[k] = int64(len(typeTags) + 1)
		typeTagNames[typeTags[k]] = k
		typeByKey[k] = t
	}
	return IntLit(typeTags[k])
}

func pointerShaped(t types.Type) bool {
	switch under(t).(type) {
	case *types.Pointer, *types.Map, *types.Chan, *types.Signature:
		return true
	}
	if b, ok := under(t).(*types.Basic); ok && b.Kind() == types.UnsafePointer {
		return true
	}
	return false
}

// box turns a value of static type t into interface payload.
func box(t types.Type, v Val) *Term {
	if pointerShaped(t) {
		return flat(v)[0]
	}
	fs := flat(v)
	k := typeKey(t)
	if len(fs) == 0 {
		return Var("box$"+k+"$unit", SRef)
	}
	b := App("box$"+k, SRef, fs...)
	for i, f := range fs {
		b.AddFact(Eq(App(fmt.Sprintf("unbox$%s$%d", k, i), f.sort, b), f))
	}
	return b
}

func unbox(t types.Type, data *Term) Val {
	if pointerShaped(t) {
		return unflat(t, []*Term{data})
	}
	ls := leaves(t)
	k := typeKey(t)
	ts := make([]*Term, len(ls))
	for i, l := range ls {
		ts[i] = App(fmt.Sprintf("unbox$%s$%d", k, i), l.sort, data)
	}
	return unflat(t, ts)
}

func birth(r *Term) *Term { return App("birth", SInt, r) }
