package main

import (
	"fmt"
	"go/token"
	"go/types"
	"os"
	"path/filepath"
	"sort"
	"strings"

	"golang.org/x/tools/go/packages"
	"golang.org/x/tools/go/ssa"
	"golang.org/x/tools/go/ssa/ssautil"
)

type Prog struct {
	prog   *ssa.Program
	fset   *token.FileSet
	pkgs   []*packages.Package
	module string
	repo   string
	cs     *ContractSet

	byPath map[string]*types.Package
	byName map[string][]*types.Package

	typeByKey  map[string]types.Type
	globByName map[string]*ssa.Global
	inlinePkgs map[string]bool
	allocLimit int64
	bindErrors []string
	houdiniAll bool
	sizes      types.Sizes

	constGlob map[*ssa.Global]bool
	initDone  map[string]*initInfo
	funcs     map[string]*ssa.Function
	immutable map[string][]*Term
	debug     bool
}

type initInfo struct {
	final    *State
	pc       *Term
	conj     []*Term
	straight bool
	content  map[int][]*Term
}

func loadProg(repo string, patterns []string, contractDirs []string) (*Prog, error) {
	cfg := &packages.Config{
		Mode:       packages.LoadAllSyntax | packages.NeedModule,
		Dir:        repo,
		BuildFlags: []string{"-tags=verif", "-mod=readonly"},
		Env:        append(os.Environ(), "GOFLAGS=-mod=readonly", "GOPROXY=off", "GOSUMDB=off", "GOTOOLCHAIN=local"),
	}
	pkgs, err := packages.Load(cfg, patterns...)
	if err != nil {
		return nil, err
	}
	var errs []string
	packages.Visit(pkgs, nil, func(p *packages.Package) {
		for _, e := range p.Errors {
			errs = append(errs, e.Error())
		}
	})
	if len(errs) > 0 {
		return nil, fmt.Errorf("package load errors:\n%s", strings.Join(errs, "\n"))
	}
	prog, _ := ssautil.AllPackages(pkgs, ssa.GlobalDebug|ssa.InstantiateGenerics)
	prog.Build()
	P := &Prog{prog: prog, pkgs: pkgs, repo: repo, byPath: map[string]*types.Package{}, byName: map[string][]*types.Package{},
		typeByKey: typeByKey, globByName: map[string]*ssa.Global{}, inlinePkgs: map[string]bool{}, allocLimit: 65536,
		constGlob: map[*ssa.Global]bool{}, initDone: map[string]*initInfo{}, funcs: map[string]*ssa.Function{}, immutable: map[string][]*Term{}}
	if len(pkgs) > 0 {
		P.fset = pkgs[0].Fset
		if pkgs[0].Module != nil {
			P.module = pkgs[0].Module.Path
		}
		P.sizes = pkgs[0].TypesSizes
	}
	for _, sp := range prog.AllPackages() {
		tp := sp.Pkg
		P.byPath[tp.Path()] = tp
		P.byName[tp.Name()] = append(P.byName[tp.Name()], tp)
	}
	for _, p := range []string{"sync/atomic", "bytes", "encoding/binary", "internal/bytealg", "math/bits", "internal/byteorder", "unicode/utf8", "golang.org/x/crypto/cryptobyte"} {
		P.inlinePkgs[p] = true
	}
	// contracts: comment-only files in the repository, then assumed contracts
	P.cs = newContractSet()
	packages.Visit(pkgs, nil, func(p *packages.Package) {
		if p.Module == nil || p.Module.Path != P.module {
			return
		}
		for _, f := range p.GoFiles {
			if strings.HasSuffix(f, "_verif.go") {
				P.cs.loadContractFile(f, p.PkgPath, false)
			}
		}
	})
	for _, d := range contractDirs {
		files, _ := filepath.Glob(filepath.Join(d, "*.gvc"))
		sort.Strings(files)
		for _, f := range files {
			P.cs.loadContractFile(f, "", true)
		}
	}
	P.cs.finish()
	for fn := range ssautil.AllFunctions(prog) {
		P.funcs[fn.String()] = fn
	}
	return P, nil
}

func (P *Prog) findPkg(nameOrPath string) *types.Package {
	if p, ok := P.byPath[nameOrPath]; ok {
		return p
	}
	if ps, ok := P.byName[nameOrPath]; ok {
		// prefer module packages, then shortest path (std)
		best := ps[0]
		for _, p := range ps[1:] {
			if strings.HasPrefix(p.Path(), P.module) && !strings.HasPrefix(best.Path(), P.module) {
				best = p
			} else if len(p.Path()) < len(best.Path()) && !strings.HasPrefix(best.Path(), P.module) {
				best = p
			}
		}
		return best
	}
	return nil
}

func (P *Prog) relName(fn *ssa.Function) string {
	return strings.ReplaceAll(fn.String(), P.module+"/", "")
}

func (P *Prog) contractFor(fn *ssa.Function) *Contract {
	if c, ok := P.cs.ByKey[fn.String()]; ok {
		return c
	}
	if o := fn.Origin(); o != nil {
		if c, ok := P.cs.ByKey[o.String()]; ok {
			return c
		}
	}
	return nil
}

func (P *Prog) sizeof(t types.Type) int64 {
	defer func() { recover() }()
	if P.sizes == nil {
		return 8
	}
	return P.sizes.Sizeof(t)
}

// isConstGlobal: the package never stores to g outside init and never lets its address escape.
func (P *Prog) isConstGlobal(g *ssa.Global) bool {
	if v, ok := P.constGlob[g]; ok {
		return v
	}
	res := true
	pkg := g.Pkg
	var scan func(fn *ssa.Function)
	scan = func(fn *ssa.Function) {
		if !res {
			return
		}
		isInit := fn.Name() == "init" || strings.HasPrefix(fn.Name(), "init#")
		for _, b := range fn.Blocks {
			for _, in := range b.Instrs {
				ops := in.Operands(nil)
				for _, op := range ops {
					if *op != ssa.Value(g) {
						continue
					}
					if u, ok := in.(*ssa.UnOp); ok && u.Op == token.MUL {
						continue
					}
					if _, ok := in.(*ssa.DebugRef); ok {
						continue
					}
					if isInit {
						continue
					}
					res = false
				}
			}
		}
		for _, a := range fn.AnonFuncs {
			scan(a)
		}
	}
	for _, m := range pkg.Members {
		if fn, ok := m.(*ssa.Function); ok {
			scan(fn)
		}
		if tn, ok := m.(*ssa.Type); ok {
			for _, t := range []types.Type{tn.Type(), types.NewPointer(tn.Type())} {
				ms := P.prog.MethodSets.MethodSet(t)
				for i := 0; i < ms.Len(); i++ {
					if fn := P.prog.MethodValue(ms.At(i)); fn != nil && fn.Pkg == pkg {
						scan(fn)
					}
				}
			}
		}
	}
	P.constGlob[g] = res
	return res
}

// lookupFunc finds a function by its full ssa name or by a name relative to the module.
func (P *Prog) lookupFunc(key string) *ssa.Function {
	if fn, ok := P.funcs[key]; ok {
		return fn
	}
	for k, fn := range P.funcs {
		if strings.ReplaceAll(k, P.module+"/", "") == key {
			return fn
		}
	}
	return nil
}
