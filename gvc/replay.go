package main

// Counterexample extraction (get-value over named observables, with model shrinking) and
// replay on the real code through an in-package test injected with `go test -overlay`.

import (
	"go/token"
	"context"
	"encoding/json"
	"fmt"
	"go/types"
	"os"
	"os/exec"
	"path/filepath"
	"regexp"
	"strconv"
	"strings"
	"time"

	"golang.org/x/tools/go/ssa"
)

type ReplayResult struct {
	Path       string
	Reproduced bool
	Detail     string
}

type observable struct {
	name string
	t    *Term
}

// scriptWithObs renders the query plus named observables and a get-value command.
func scriptWithObs(asserts []*Term, obs []observable) string {
	// make the observable terms reachable so that their declarations are emitted: assert t = t is
	// simplified away, so wrap them in a harmless distinct-free tautology via an uninterpreted keeper
	var keep []*Term
	for _, o := range obs {
		keep = append(keep, Eq(App("keep$"+sortTag(o.t.sort), SBool, o.t), App("keep$"+sortTag(o.t.sort), SBool, o.t)))
	}
	_ = keep
	s := ScriptObs(asserts, obs)
	return s
}

func sortTag(s string) string { return sanitize(s) }

var getValRe = regexp.MustCompile(`\(\s*(obs![0-9]+)\s+([^()\s]+|\(_ bv[0-9]+ [0-9]+\)|\(- [0-9]+\))\s*\)`)

func parseValues(out string) map[string]string {
	m := map[string]string{}
	for _, g := range getValRe.FindAllStringSubmatch(out, -1) {
		m[g[1]] = g[2]
	}
	return m
}

func bvValue(s string) (uint64, bool) {
	switch {
	case strings.HasPrefix(s, "#x"):
		v, err := strconv.ParseUint(s[2:], 16, 64)
		return v, err == nil
	case strings.HasPrefix(s, "#b"):
		v, err := strconv.ParseUint(s[2:], 2, 64)
		return v, err == nil
	case strings.HasPrefix(s, "(_ bv"):
		f := strings.Fields(s[5:])
		v, err := strconv.ParseUint(f[0], 10, 64)
		return v, err == nil
	}
	return 0, false
}

// queryModel solves asserts+extra and returns the values of the observables.
func queryModel(asserts []*Term, extra []*Term, obs []observable, sec int) (map[string]string, bool) {
	as := append(append([]*Term{}, asserts...), extra...)
	script := ScriptObs(as, obs)
	for _, sd := range []solverDef{solvers[0], solvers[2]} {
		r := runSolver(context.Background(), sd, script, sec)
		if r.verdict == "sat" {
			return parseValues(r.output), true
		}
		if r.verdict == "unsat" {
			return nil, false
		}
	}
	return nil, false
}

// harness inputs ----------------------------------------------------------------------------

type fieldObs struct {
	path   string // Go field name
	typ    types.Type
	render func(vals map[string]string) string // Go expression, "" to omit
}

// scalarObs registers an observable and returns its name.
type obsSet struct {
	list   []observable
	bounds []*Term // length bounds under which every observed slice / string can be rendered
}

func (o *obsSet) add(t *Term) string {
	n := fmt.Sprintf("obs!%d", len(o.list))
	o.list = append(o.list, observable{n, t})
	return n
}

func goTypeName(t types.Type, pkg *types.Package) string {
	return types.TypeString(t, func(p *types.Package) string {
		if p == pkg {
			return ""
		}
		return p.Name()
	})
}

// observeValue builds observables for a value of type t and returns a renderer to a Go literal.
func (ex *Exec) observeValue(os *obsSet, st *State, t types.Type, v Val, pkg *types.Package, depth int) func(vals map[string]string) string {
	const maxElems = 24
	switch u := under(t).(type) {
	case *types.Basic:
		if _, _, ok := intInfo(u); ok {
			n := os.add(v.(*Term))
			_, signed, _ := intInfo(u)
			w, _, _ := intInfo(u)
			return func(vals map[string]string) string {
				x, ok := bvValue(vals[n])
				if !ok {
					return ""
				}
				if signed {
					sx := int64(x)
					if w < 64 && x&(1<<uint(w-1)) != 0 {
						sx = int64(x) - (1 << uint(w))
					}
					return fmt.Sprintf("%s(%d)", goTypeName(t, pkg), sx)
				}
				return fmt.Sprintf("%s(%d)", goTypeName(t, pkg), x)
			}
		}
		if isBoolT(u) {
			n := os.add(v.(*Term))
			return func(vals map[string]string) string {
				if vals[n] == "" {
					return ""
				}
				return vals[n]
			}
		}
		if isString(u) {
			sv := v.(*SliceV)
			ln := os.add(sv.Len)
			os.bounds = append(os.bounds, BVCmp("bvsle", sv.Len, BVu(64, 64)))
			var bs []string
			for i := 0; i < 64; i++ {
				bs = append(bs, os.add(ex.strByte(sv, BVu(uint64(i), 64))))
			}
			return func(vals map[string]string) string {
				l, ok := bvValue(vals[ln])
				if !ok || l > 64 {
					return ""
				}
				b := make([]byte, l)
				for i := range b {
					x, _ := bvValue(vals[bs[i]])
					b[i] = byte(x)
				}
				return fmt.Sprintf("%s(%q)", goTypeName(t, pkg), string(b))
			}
		}
	case *types.Slice:
		sv := v.(*SliceV)
		if aggregate(u.Elem()) || depth > 1 {
			return nil
		}
		ln := os.add(sv.Len)
		os.bounds = append(os.bounds, BVCmp("bvsle", sv.Len, BVu(maxElems, 64)))
		var elems []func(map[string]string) string
		for i := 0; i < maxElems; i++ {
			ev := ex.loadElem(st, u.Elem(), sv.Arr, BVOp("bvadd", sv.Off, BVu(uint64(i), 64)))
			r := ex.observeValue(os, st, u.Elem(), ev, pkg, depth+1)
			if r == nil {
				return nil
			}
			elems = append(elems, r)
		}
		return func(vals map[string]string) string {
			l, ok := bvValue(vals[ln])
			if !ok || l > maxElems {
				return ""
			}
			var parts []string
			for i := 0; i < int(l); i++ {
				p := elems[i](vals)
				if p == "" {
					return ""
				}
				parts = append(parts, p)
			}
			return goTypeName(t, pkg) + "{" + strings.Join(parts, ", ") + "}"
		}
	}
	return nil
}

type replayPlan struct {
	kind    string
	obs     *obsSet
	lenObs  string
	byteObs []string
	fields  []struct {
		name   string
		render func(map[string]string) string
	}
	retObs   []string
	byteAt   func(i int) *Term
	extraLen *Term
	recvType string
	pkgDir   string
	pkgName  string
	funcName string
}

const maxReplayBytes = 12288

// planMatcher: input = cx.buf[cx.offset:], configuration = receiver fields.
func (ex *Exec) planMatcher(fr *Frame) *replayPlan {
	fn := fr.fn
	if fn.Signature.Recv() == nil || len(fr.args) != 2 {
		return nil
	}
	pl := &replayPlan{kind: "matcher", obs: &obsSet{}}
	st := fr.entry
	cxT := fn.Params[1].Type()
	pt, ok := under(cxT).(*types.Pointer)
	if !ok {
		return nil
	}
	owner := pt.Elem()
	cx := fr.args[1].(*Term)
	sct := structOf(owner)
	if sct == nil {
		return nil
	}
	fi := map[string]int{}
	for i := 0; i < sct.NumFields(); i++ {
		fi[sct.Field(i).Name()] = i
	}
	if _, ok := fi["buf"]; !ok {
		return nil
	}
	buf := ex.loadField(st, owner, fi["buf"], cx).(*SliceV)
	off := ex.loadField(st, owner, fi["offset"], cx).(*Term)
	n := BVOp("bvsub", buf.Len, off)
	pl.extraLen = n
	pl.lenObs = pl.obs.add(n)
	et := types.Typ[types.Uint8]
	pl.byteAt = func(i int) *Term {
		return ex.loadElem(st, et, buf.Arr, BVOp("bvadd", BVOp("bvadd", buf.Off, off), BVu(uint64(i), 64))).(*Term)
	}
	// receiver configuration
	rt := fn.Signature.Recv().Type()
	if rp, ok := under(rt).(*types.Pointer); ok {
		if rs := structOf(rp.Elem()); rs != nil {
			recv := fr.args[0].(*Term)
			for i := 0; i < rs.NumFields(); i++ {
				f := rs.Field(i)
				if aggregate(f.Type()) {
					continue
				}
				v := ex.loadField(st, rp.Elem(), i, recv)
				r := ex.observeValue(pl.obs, st, f.Type(), v, fn.Pkg.Pkg, 0)
				if r != nil {
					pl.fields = append(pl.fields, struct {
						name   string
						render func(map[string]string) string
					}{f.Name(), r})
				}
			}
			pl.recvType = goTypeName(rp.Elem(), fn.Pkg.Pkg)
		}
	}
	pl.pkgName = fn.Pkg.Pkg.Name()
	pl.pkgDir = strings.TrimPrefix(fn.Pkg.Pkg.Path(), ex.P.module+"/")
	pl.funcName = fn.Name()
	return pl
}

// replay extracts an input for a failed obligation and runs it against the real code.
func (P *Prog) replay(root, prop string, o *Obligation, tier string) *ReplayResult {
	info := map[string]interface{}{"obligation": o.Name, "kind": o.Kind, "at": o.Pos, "goal": o.Desc, "solver_verdict": o.Verdict, "solver": o.Solver}
	res := &ReplayResult{}
	finish := func() *ReplayResult {
		info["reproduced"] = res.Reproduced
		info["detail"] = res.Detail
		if !res.Reproduced {
			info["solver_output"] = firstLines(o.Model+o.Reason, 60)
		}
		res.Path = writeReplayFile(root, prop, o.Name, info)
		return res
	}
	ctxv, ok := oblCtx[o]
	if !ok || o.Verdict != "sat" {
		res.Detail = "no model (solver answered " + o.Verdict + ")"
		return finish()
	}
	ex, fr := ctxv.ex, ctxv.fr
	kind := ""
	if ex.rct != nil {
		kind = ex.rct.Replay
	}
	if kind == "" {
		kind = "matcher"
	}
	var pl *replayPlan
	switch kind {
	case "matcher":
		pl = ex.planMatcher(fr)
	}
	if pl == nil {
		res.Detail = "no replay harness for this function (kind " + kind + ")"
		return finish()
	}
	goal := o.Goal
	if o.FailedGoal != nil {
		goal = o.FailedGoal
	}
	// what the engine's model of the code returns on the counterexample (matchers: matched, err)
	var retMatched, retErrNil string
	if kind == "matcher" && len(o.Rets) == 2 {
		if m, ok := o.Rets[0].(*Term); ok && m.sort == SBool {
			if e, ok := o.Rets[1].(*IfaceV); ok {
				retMatched = pl.obs.add(m)
				retErrNil = pl.obs.add(Eq(e.Tag, IntLit(0)))
			}
		}
	}
	asserts := append(enableAsserts(ctxv.cands), o.PC, Not(goal))
	var vals map[string]string
	found := false
	for _, bound := range []uint64{16, 64, 512, 4096, maxReplayBytes} {
		var extra []*Term
		if pl.extraLen != nil {
			extra = append(extra, BVCmp("bvsle", pl.extraLen, BVu(bound, 64)))
		}
		extra = append(extra, pl.obs.bounds...)
		for len(pl.byteObs) < int(bound) {
			pl.byteObs = append(pl.byteObs, pl.obs.add(pl.byteAt(len(pl.byteObs))))
		}
		v, sat := queryModel(asserts, extra, pl.obs.list, 20)
		if sat {
			vals, found = v, true
			info["input_length_bound"] = bound
			break
		}
	}
	if !found {
		res.Detail = "no model with an input of at most " + strconv.Itoa(maxReplayBytes) + " bytes"
		return finish()
	}
	l, _ := bvValue(vals[pl.lenObs])
	if l > maxReplayBytes {
		res.Detail = "model input too long"
		return finish()
	}
	in := make([]byte, l)
	for i := range in {
		x, _ := bvValue(vals[pl.byteObs[i]])
		in[i] = byte(x)
	}
	info["input_hex"] = fmt.Sprintf("%x", in)
	// exported fields are set before Provision runs (it derives pointers, regexps, ... from them);
	// the model's values of the unexported scalar/slice fields are assigned after it, so that the
	// real run starts from the matcher state of the counterexample
	var cfg, post []string
	allRendered := true
	for _, f := range pl.fields {
		s := f.render(vals)
		if s == "" {
			allRendered = false
		}
		if s != "" {
			if token.IsExported(f.name) {
				cfg = append(cfg, f.name+": "+s)
			} else {
				post = append(post, "m."+f.name+" = "+s)
			}
		}
	}
	info["config"] = append(append([]string{}, cfg...), post...)
	src := matcherHarness(pl, in, cfg, post)
	info["harness_go"] = src
	out, err := P.runOverlayTest(pl.pkgDir, src)
	info["real_code_output"] = firstLines(out, 30)
	if err != nil && out == "" {
		res.Detail = "replay could not run: " + err.Error()
		return finish()
	}
	res.Reproduced, res.Detail = judgeReplay(o, out, P.allocLimit)
	if !res.Reproduced && allRendered && retMatched != "" && vals[retMatched] != "" && vals[retErrNil] != "" {
		// a functional obligation: the counterexample replays when the real code returns what the
		// engine's model of the code returns on this input and configuration (the values the
		// obligation calls wrong)
		want := fmt.Sprintf("matched=%s", vals[retMatched])
		line := grepLine(out, "GVC-REPLAY: result")
		realNil := strings.Contains(line, "err=<nil>")
		if line != "" && strings.Contains(line, want) && realNil == (vals[retErrNil] == "true") {
			res.Reproduced = true
			res.Detail = "real code returns " + strings.TrimPrefix(line, "GVC-REPLAY: result ") + " on this input and configuration, as the verifier's model of the code predicts; the obligation says that result is wrong: " + o.Desc
		} else {
			res.Detail += " (the model predicted matched=" + vals[retMatched] + " err==nil:" + vals[retErrNil] + ")"
		}
	}
	return finish()
}

type oblContext struct {
	ex    *Exec
	fr    *Frame
	cands []*Candidate
}

var oblCtx = map[*Obligation]oblContext{}

func judgeReplay(o *Obligation, out string, limit int64) (bool, string) {
	panicked := strings.Contains(out, "GVC-REPLAY: panic:")
	switch {
	case o.Kind == "alloc":
		re := regexp.MustCompile(`GVC-REPLAY: allocated=([0-9]+)`)
		if m := re.FindStringSubmatch(out); m != nil {
			n, _ := strconv.ParseInt(m[1], 10, 64)
			if n > limit {
				return true, fmt.Sprintf("real code allocated %d bytes (> %d)", n, limit)
			}
			return false, fmt.Sprintf("real code allocated %d bytes", n)
		}
		if strings.Contains(out, "out of memory") || strings.Contains(out, "cannot allocate") {
			return true, "real code ran out of memory"
		}
		return false, "allocation not observed"
	case o.Kind == "post" || strings.HasPrefix(o.Kind, "pre:") || o.Kind == "frame":
		if panicked {
			return true, "real code panicked: " + grepLine(out, "GVC-REPLAY: panic:")
		}
		return false, "real result: " + grepLine(out, "GVC-REPLAY: result")
	default:
		if panicked {
			return true, "real code panicked: " + grepLine(out, "GVC-REPLAY: panic:")
		}
		return false, "no panic; real result: " + grepLine(out, "GVC-REPLAY: result")
	}
}

func grepLine(out, pat string) string {
	for _, l := range strings.Split(out, "\n") {
		if strings.Contains(l, pat) {
			return strings.TrimSpace(l)
		}
	}
	return ""
}

func matcherHarness(pl *replayPlan, in []byte, cfg []string, post []string) string {
	var sb strings.Builder
	fmt.Fprintf(&sb, "package %s\n\n", pl.pkgName)
	sb.WriteString(`import (
	"context"
	"fmt"
	"net"
	"runtime"
	"testing"

	"github.com/caddyserver/caddy/v2"
	"github.com/mholt/caddy-l4/layer4"
	"go.uber.org/zap"
)

func TestGvcReplay(t *testing.T) {
`)
	fmt.Fprintf(&sb, "\tin := []byte{")
	for i, b := range in {
		if i%16 == 0 {
			sb.WriteString("\n\t\t")
		}
		fmt.Fprintf(&sb, "0x%02x, ", b)
	}
	sb.WriteString("\n\t}\n")
	fmt.Fprintf(&sb, "\tm := &%s{%s}\n", pl.recvType, strings.Join(cfg, ", "))
	sb.WriteString(`	func() {
		defer func() { recover() }()
		if p, ok := interface{}(m).(caddy.Provisioner); ok {
			ctx, cancel := caddy.NewContext(caddy.Context{Context: context.Background()})
			defer cancel()
			_ = p.Provision(ctx)
		}
	}()
	c1, c2 := net.Pipe()
	defer c1.Close()
	defer c2.Close()
	cx := layer4.WrapConnection(c1, in, zap.NewNop())
`)
	for _, p := range post {
		sb.WriteString("\t" + p + "\n")
	}
	sb.WriteString(`	var ms runtime.MemStats
	runtime.ReadMemStats(&ms)
	before := ms.TotalAlloc
	func() {
		defer func() {
			if r := recover(); r != nil {
				fmt.Printf("GVC-REPLAY: panic: %v\n", r)
			}
		}()
		matched, err := layer4.MatcherSet{m}.Match(cx)
		fmt.Printf("GVC-REPLAY: result matched=%v err=%v\n", matched, err)
	}()
	runtime.ReadMemStats(&ms)
	fmt.Printf("GVC-REPLAY: allocated=%d\n", ms.TotalAlloc-before)
}
`)
	return sb.String()
}

// runOverlayTest injects src as an in-package test file of pkgDir and runs it against the real code.
func (P *Prog) runOverlayTest(pkgDir string, src string) (string, error) {
	tmp, err := os.MkdirTemp("", "gvc-replay-")
	if err != nil {
		return "", err
	}
	defer os.RemoveAll(tmp)
	srcPath := filepath.Join(tmp, "zz_gvc_replay_test.go")
	if err := os.WriteFile(srcPath, []byte(src), 0o644); err != nil {
		return "", err
	}
	target := filepath.Join(P.repo, pkgDir, "zz_gvc_replay_test.go")
	ov, _ := json.Marshal(map[string]interface{}{"Replace": map[string]string{target: srcPath}})
	ovPath := filepath.Join(tmp, "overlay.json")
	os.WriteFile(ovPath, ov, 0o644)
	ctx, cancel := context.WithTimeout(context.Background(), 180*time.Second)
	defer cancel()
	cmd := exec.CommandContext(ctx, "go", "test", "-overlay", ovPath, "-vet=off", "-count=1", "-timeout", "60s", "-run", "^TestGvcReplay$", "-v", "./"+pkgDir)
	cmd.Dir = P.repo
	cmd.Env = append(os.Environ(), "GOFLAGS=-mod=readonly", "GOPROXY=off", "GOSUMDB=off", "GOTOOLCHAIN=local")
	out, err := cmd.CombinedOutput()
	return string(out), err
}

var _ = ssa.NewProgram
