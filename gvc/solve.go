package main

import (
	"bytes"
	"context"
	"fmt"
	"os"
	"os/exec"
	"strings"
	"sync"
	"time"
)

type solverDef struct {
	name string
	cmd  func(sec int) []string
	cvc5 bool
}

var solvers = []solverDef{
	{"z3-5.1.0", func(s int) []string { return []string{"z3-new", "-in", fmt.Sprintf("-T:%d", s)} }, false},
	{"z3-4.8.12", func(s int) []string { return []string{"z3", "-in", fmt.Sprintf("-T:%d", s)} }, false},
	{"cvc5-1.0.3", func(s int) []string {
		return []string{"cvc5", "--lang", "smt2", fmt.Sprintf("--tlimit=%d", s*1000)}
	}, true},
}

var solverSem = make(chan struct{}, 16)

type solveResult struct {
	verdict string // unsat sat unknown timeout error
	solver  string
	seconds float64
	output  string
}

func runSolver(ctx context.Context, sd solverDef, script string, sec int) solveResult {
	solverSem <- struct{}{}
	defer func() { <-solverSem }()
	t0 := time.Now()
	cctx, cancel := context.WithTimeout(ctx, time.Duration(sec+2)*time.Second)
	defer cancel()
	args := sd.cmd(sec)
	cmd := exec.CommandContext(cctx, args[0], args[1:]...)
	cmd.Stdin = strings.NewReader(script)
	var out bytes.Buffer
	cmd.Stdout = &out
	cmd.Stderr = &out
	_ = cmd.Run()
	el := time.Since(t0).Seconds()
	o := out.String()
	first := strings.TrimSpace(strings.SplitN(o, "\n", 2)[0])
	v := "unknown"
	switch {
	case first == "unsat":
		v = "unsat"
	case first == "sat":
		v = "sat"
	case first == "timeout" || cctx.Err() != nil || el >= float64(sec):
		v = "timeout"
	case strings.HasPrefix(first, "(error") || strings.Contains(first, "rror"):
		v = "error"
	}
	return solveResult{v, sd.name, el, o}
}

// decide runs the portfolio on one query.
func decide(asserts []*Term, tier string, wantModel bool) (solveResult, string) {
	quick := tier != "thorough"
	s1, s2 := 4, 12
	if !quick {
		s1, s2 = 10, 60
	}
	scriptZ := Script(asserts, ScriptOpts{Model: wantModel})
	r := runSolver(context.Background(), solvers[0], scriptZ, s1)
	if r.verdict == "unsat" || r.verdict == "sat" {
		return r, scriptZ
	}
	if r.verdict == "error" && debugSolver {
		fmt.Fprintf(os.Stderr, "solver error: %s\n", firstLines(r.output, 5))
	}
	// race all three
	ctx, cancel := context.WithCancel(context.Background())
	defer cancel()
	ch := make(chan solveResult, 3)
	scriptC := Script(asserts, ScriptOpts{Cvc5: true, Model: wantModel})
	for _, sd := range solvers {
		sd := sd
		sc := scriptZ
		if sd.cvc5 {
			sc = scriptC
		}
		go func() { ch <- runSolver(ctx, sd, sc, s2) }()
	}
	best := r
	for i := 0; i < 3; i++ {
		x := <-ch
		if x.verdict == "unsat" || x.verdict == "sat" {
			return x, scriptZ
		}
		if best.verdict == "error" || (best.verdict == "unknown" && x.verdict == "timeout") {
			best = x
		}
	}
	return best, scriptZ
}

var debugSolver = false

func firstLines(s string, n int) string {
	ls := strings.Split(s, "\n")
	if len(ls) > n {
		ls = ls[:n]
	}
	return strings.Join(ls, "\n")
}

// enableAsserts fixes the Houdini enable flags.
func enableAsserts(cands []*Candidate) []*Term {
	var out []*Term
	for _, c := range cands {
		if c.Alive {
			out = append(out, c.Enable)
		} else {
			out = append(out, Not(c.Enable))
		}
	}
	return out
}

// runHoudini drops loop-invariant candidates that are not established or not preserved.
func (r *FuncResult) runHoudini(tier string) (rounds int, queries int) {
	for {
		rounds++
		changed := false
		en := enableAsserts(r.Candidates)
		type job struct {
			h *houdiniObl
		}
		var wg sync.WaitGroup
		var mu sync.Mutex
		// scripts must be generated sequentially (term store is not thread safe)
		type prepared struct {
			h       *houdiniObl
			asserts []*Term
		}
		var prep []prepared
		for _, h := range r.houdini {
			if !h.c.Alive {
				continue
			}
			if h.o.Goal == True || h.o.PC == False {
				continue
			}
			if h.o.Goal == False {
				h.c.Alive = false
				changed = true
				continue
			}
			as := append(append([]*Term{}, en...), h.o.PC, Not(h.o.Goal))
			prep = append(prep, prepared{h, as})
		}
		slots := make(chan struct{}, 16)
		for i := range prep {
			i := i
			wg.Add(1)
			queries++
			slots <- struct{}{}
			go func() {
				defer wg.Done()
				defer func() { <-slots }()
				sec := 2
				if !prep[i].h.c.Auto {
					sec = 5
				}
				res := runSolver(context.Background(), solvers[0], Script(prep[i].asserts, ScriptOpts{}), sec)
				if res.verdict != "unsat" {
					mu.Lock()
					if prep[i].h.c.Alive {
						prep[i].h.c.Alive = false
						changed = true
					}
					mu.Unlock()
				}
			}()
		}
		wg.Wait()
		if !changed || rounds > 12 {
			return
		}
	}
}

// solveAll discharges the obligations in parallel. Scripts are rendered inside the workers
// (rendering only reads the term store) and are not retained.
func solveAll(obls []*Obligation, cands []*Candidate, tier string, expectSat bool) {
	en := enableAsserts(cands)
	var wg sync.WaitGroup
	slots := make(chan struct{}, 16)
	for _, o := range obls {
		if !expectSat && (o.Goal == True || o.PC == False) {
			o.Verdict, o.Solver = "unsat", "simplifier"
			continue
		}
		o := o
		as := append(append([]*Term{}, en...), o.PC, Not(o.Goal))
		wg.Add(1)
		slots <- struct{}{}
		go func() {
			defer wg.Done()
			defer func() { <-slots }()
			scriptZ := Script(as, ScriptOpts{Model: true})
			o.ScriptBytes = len(scriptZ)
			res := decideScripts(scriptZ, func() string { return Script(as, ScriptOpts{Cvc5: true, Model: true}) }, tier)
			o.Verdict, o.Solver, o.Seconds = res.verdict, res.solver, res.seconds
			if res.verdict == "sat" {
				o.Model = firstLines(res.output, 400)
			} else if res.verdict != "unsat" {
				o.Reason = firstLines(res.output, 3)
			}
			if res.verdict != "unsat" && keepScripts {
				o.Script = scriptZ
			}
		}()
	}
	wg.Wait()
}

var keepScripts = false

func decideScripts(scriptZ string, mkC func() string, tier string) solveResult {
	quick := tier != "thorough"
	s1, s2 := 4, 12
	if !quick {
		s1, s2 = 10, 60
	}
	r := runSolver(context.Background(), solvers[0], scriptZ, s1)
	if r.verdict == "unsat" || r.verdict == "sat" {
		return r
	}
	ctx, cancel := context.WithCancel(context.Background())
	defer cancel()
	ch := make(chan solveResult, 3)
	scriptC := mkC()
	for _, sd := range solvers {
		sd := sd
		sc := scriptZ
		if sd.cvc5 {
			sc = scriptC
		}
		go func() { ch <- runSolver(ctx, sd, sc, s2) }()
	}
	best := r
	total := r.seconds
	for i := 0; i < 3; i++ {
		x := <-ch
		if x.verdict == "unsat" || x.verdict == "sat" {
			x.seconds += total
			return x
		}
		if best.verdict == "error" || (best.verdict == "unknown" && x.verdict == "timeout") {
			best = x
		}
	}
	best.seconds += total
	return best
}
