package main

import (
	"bytes"
	"sort"
	"context"
	"fmt"
	"os"
	"os/exec"
	"strings"
	"sync"
	"time"
)

type solverDef struct {
	name string
	cmd  func(sec int) []string
	cvc5 bool
}

var solvers = []solverDef{
	{"z3-5.1.0", func(s int) []string { return []string{"z3-new", "-in", fmt.Sprintf("-T:%d", s)} }, false},
	// NOT used: on one vacuity query z3's int-blasting BV solver answered `unsat` where every other
	// solver could not confirm it and the formula is believed satisfiable; kept only for experiments.
	{"z3-5.1.0-intblast", func(s int) []string {
		return []string{"z3-new", "-in", fmt.Sprintf("-T:%d", s), "smt.bv.solver=2"}
	}, false},
	{"z3-4.8.12", func(s int) []string { return []string{"z3", "-in", fmt.Sprintf("-T:%d", s)} }, false},
	{"cvc5-1.0.3", func(s int) []string {
		return []string{"cvc5", "--lang", "smt2", fmt.Sprintf("--tlimit=%d", s*1000)}
	}, true},
}

var solverSem = make(chan struct{}, 8)  // first-stage solver runs
var racerSem = make(chan struct{}, 8)  // delayed portfolio members

type solveResult struct {
	verdict string // unsat sat unknown timeout error
	solver  string
	seconds float64
	output  string
}

func runSolver(ctx context.Context, sd solverDef, script string, sec int) solveResult {
	return runSolverIn(ctx, solverSem, sd, script, sec)
}

func runSolverIn(ctx context.Context, sem chan struct{}, sd solverDef, script string, sec int) solveResult {
	select {
	case sem <- struct{}{}:
	case <-ctx.Done():
		return solveResult{verdict: "unknown", solver: sd.name}
	}
	defer func() { <-sem }()
	t0 := time.Now()
	cctx, cancel := context.WithTimeout(ctx, time.Duration(sec+2)*time.Second)
	defer cancel()
	args := sd.cmd(sec)
	cmd := exec.CommandContext(cctx, args[0], args[1:]...)
	cmd.Stdin = strings.NewReader(script)
	var out bytes.Buffer
	cmd.Stdout = &out
	cmd.Stderr = &out
	_ = cmd.Run()
	el := time.Since(t0).Seconds()
	o := out.String()
	first := strings.TrimSpace(strings.SplitN(o, "\n", 2)[0])
	v := "unknown"
	switch {
	case first == "unsat":
		v = "unsat"
	case first == "sat":
		v = "sat"
	case first == "timeout" || cctx.Err() != nil || el >= float64(sec):
		v = "timeout"
	case strings.HasPrefix(first, "(error") || strings.Contains(first, "rror"):
		v = "error"
	}
	return solveResult{v, sd.name, el, o}
}

// decide runs the portfolio on one query.
func decide(asserts []*Term, tier string, wantModel bool) (solveResult, string) {
	quick := tier != "thorough"
	s1, s2 := 4, 12
	if !quick {
		s1, s2 = 10, 60
	}
	scriptZ := Script(asserts, ScriptOpts{Model: wantModel})
	r := runSolver(context.Background(), solvers[0], scriptZ, s1)
	if r.verdict == "unsat" || r.verdict == "sat" {
		return r, scriptZ
	}
	if r.verdict == "error" && debugSolver {
		fmt.Fprintf(os.Stderr, "solver error: %s\n", firstLines(r.output, 5))
	}
	// race all three
	ctx, cancel := context.WithCancel(context.Background())
	defer cancel()
	ch := make(chan solveResult, 3)
	scriptC := Script(asserts, ScriptOpts{Cvc5: true, Model: wantModel})
	for _, sd := range solvers {
		sd := sd
		sc := scriptZ
		if sd.cvc5 {
			sc = scriptC
		}
		go func() { ch <- runSolver(ctx, sd, sc, s2) }()
	}
	best := r
	for i := 0; i < 3; i++ {
		x := <-ch
		if x.verdict == "unsat" || x.verdict == "sat" {
			return x, scriptZ
		}
		if best.verdict == "error" || (best.verdict == "unknown" && x.verdict == "timeout") {
			best = x
		}
	}
	return best, scriptZ
}

var debugSolver = false

func firstLines(s string, n int) string {
	ls := strings.Split(s, "\n")
	if len(ls) > n {
		ls = ls[:n]
	}
	return strings.Join(ls, "\n")
}

// enableAsserts fixes the Houdini enable flags.
func enableAsserts(cands []*Candidate) []*Term {
	var out []*Term
	for _, c := range cands {
		if c.Alive {
			out = append(out, c.Enable)
		} else {
			out = append(out, Not(c.Enable))
		}
	}
	return out
}

// runHoudini drops loop-invariant candidates that are not established or not preserved.
func (r *FuncResult) runHoudini(tier string) (rounds int, queries int) {
	proved := map[*houdiniObl][]*Candidate{}
	for {
		rounds++
		changed := false
		en := enableAsserts(r.Candidates)
		if os.Getenv("GVC_DEBUG") != "" {
			for _, c := range r.Candidates {
				if !c.Auto {
					fmt.Fprintf(os.Stderr, "round %d: %s alive=%v %s: %s\n", rounds, c.Enable.name, c.Alive, c.Loop, c.Src)
				}
			}
		}
		var qs []*query
		owner := map[*query]*houdiniObl{}
		for _, h := range r.houdini {
			if !h.c.Alive {
				continue
			}
			if h.o.Goal == True || h.o.PC == False {
				continue
			}
			if h.o.Goal == False {
				h.c.Alive = false
				changed = true
				continue
			}
			// an obligation that was proved in an earlier round need not be re-proved unless one of
			// the candidates it assumed has been dropped since
			if deps, ok := proved[h]; ok {
				still := true
				for _, c := range deps {
					if !c.Alive {
						still = false
					}
				}
				if still {
					continue
				}
				delete(proved, h)
			}
			for _, q := range buildQueries(h.o, en, false) {
				qs = append(qs, q)
				owner[q] = h
			}
		}
		queries += len(qs)
		var fastQs, slowQs []*query
		for _, q := range qs {
			if owner[q].c.Auto {
				fastQs = append(fastQs, q)
			} else {
				slowQs = append(slowQs, q)
			}
		}
		runQueries(fastQs, tier, true)
		runQueries(slowQs, tier, false)
		failedObl := map[*houdiniObl]bool{}
		for _, q := range qs {
			if q.result.verdict != "unsat" {
				failedObl[owner[q]] = true
			}
		}
		for _, q := range qs {
			h := owner[q]
			if !failedObl[h] {
				if _, ok := proved[h]; !ok {
					proved[h] = r.enablesIn(h.o)
				}
			}
		}
		for _, q := range qs {
			if q.result.verdict != "unsat" {
				h := owner[q]
				if os.Getenv("GVC_DEBUG") != "" {
					gs := q.goal.String()
					if len(gs) > 400 {
						gs = gs[:400]
					}
					fmt.Fprintf(os.Stderr, "houdini: %s fails (%s) round %d at %s piece: %s\n", h.o.Name, q.result.verdict, rounds, h.o.Pos, gs)
					if os.Getenv("GVC_DEBUG") == "2" {
						os.WriteFile("/tmp/houdini_"+sanitizeFile(h.o.Name)+".smt2", []byte(Script(q.as, ScriptOpts{Model: true})), 0o644)
					}
				}
				if h.c.Alive {
					h.c.Alive = false
					changed = true
				}
			}
		}
		if !changed || rounds > 12 {
			return
		}
	}
}

type query struct {
	o       *Obligation
	goal    *Term
	as0, as []*Term
	result  solveResult
	confirm string // thorough tier: outcome of the second-solver run
}

// confirmQueries (thorough tier): every query that was discharged is decided again by a solver of a
// different family (z3 <-> cvc5) on the same form of the query, 10 s each, 120 s per function, 300 s per check.
// A second `unsat` confirms; a `sat` on the full (non-instantiated) query contradicts the first
// solver and is reported as an engine fault; anything else leaves the query unconfirmed.
var (
	confirmOnce sync.Once
	confirmEnd  time.Time // the confirmation passes of one check share a budget of 300 s
)

func confirmQueries(queries []*query) {
	var wg sync.WaitGroup
	slots := make(chan struct{}, 12)
	// the whole confirmation pass of one function gets a wall-clock budget; what is not reached
	// stays "unconfirmed" (reported, not an alarm)
	confirmOnce.Do(func() { confirmEnd = time.Now().Add(300 * time.Second) })
	deadline := time.Now().Add(120 * time.Second)
	if confirmEnd.Before(deadline) {
		deadline = confirmEnd
	}
	for _, q := range queries {
		q := q
		if q.result.verdict != "unsat" || q.result.solver == "simplifier" {
			if q.result.verdict == "unsat" {
				q.confirm = "confirmed"
			}
			continue
		}
		wg.Add(1)
		slots <- struct{}{}
		go func() {
			defer wg.Done()
			defer func() { <-slots }()
			inst := strings.Contains(q.result.solver, "ground instances") && q.as0 != nil
			var order []solverDef
			switch {
			case strings.HasPrefix(q.result.solver, "cvc5"):
				order = []solverDef{solvers[0], solvers[2]}
			case strings.HasPrefix(q.result.solver, "z3-4.8.12"):
				order = []solverDef{solvers[3], solvers[0]}
			default:
				order = []solverDef{solvers[3], solvers[2]}
			}
			as := q.as
			if inst {
				as = q.as0
			}
			q.confirm = "unconfirmed"
			for _, sd := range order[:1] {
				if time.Now().After(deadline) {
					return
				}
				r := runSolverIn(context.Background(), racerSem, sd, Script(as, ScriptOpts{Cvc5: sd.cvc5}), 10)
				if r.verdict == "unsat" {
					q.confirm = "confirmed"
					return
				}
				if r.verdict == "sat" && !inst {
					q.confirm = "CONTRADICTED by " + sd.name + " (sat) after " + q.result.solver + " answered unsat"
					return
				}
			}
		}()
	}
	wg.Wait()
}

// buildQueries (sequential: creates terms) decomposes the goal of an obligation and prepares, for
// each piece, the ground-instance query and the full query.
func buildQueries(o *Obligation, en []*Term, expectSat bool) []*query {
	goals := []*Term{o.Goal}
	if !expectSat {
		goals = decomposeGoal(o.Goal, 0)
	}
	var weak *Term
	if !expectSat {
		weak = groundInstances(o.PC, goals)
	}
	var out []*query
	for _, g := range goals {
		q := &query{o: o, goal: g}
		if !expectSat && hasQuant(g, map[int]bool{}) {
			// an existential goal: its negation is a universal hypothesis to be instantiated too
			ng := Not(g)
			both := groundInstances(And(o.PC, ng), []*Term{g})
			q.as0 = append(append([]*Term{}, en...), both)
			q.as = append(append([]*Term{}, en...), o.PC, ng)
			out = append(out, q)
			continue
		}
		if !expectSat && weak != nil && weak != o.PC {
			// quantified hypotheses and a goal over merged states: prove it case by case
			if sub := retryByGuards(q, en); sub != nil {
				out = append(out, sub...)
				continue
			}
		}
		ng := Not(g)
		if weak != nil && weak != o.PC {
			q.as0 = append(append([]*Term{}, en...), weak, ng)
		}
		q.as = append(append([]*Term{}, en...), o.PC, ng)
		out = append(out, q)
	}
	return out
}

// splitCases: alternatives of a path condition along its first top-level disjunction (the merge of
// control-flow paths). pc is equivalent to the disjunction of the results.
func splitCases(pc *Term) []*Term {
	if pc.op == "or" && len(pc.args) <= 8 {
		return pc.args
	}
	if pc.op != "and" {
		return nil
	}
	for i, a := range pc.args {
		if a.op == "or" && len(a.args) >= 2 && len(a.args) <= 8 {
			var out []*Term
			for _, d := range a.args {
				rest := append(append([]*Term{}, pc.args[:i]...), pc.args[i+1:]...)
				out = append(out, And(append([]*Term{d}, rest...)...))
			}
			return out
		}
	}
	return nil
}

// iteConds counts the Boolean conditions of if-then-else terms reachable from t.
func iteConds(t *Term, cnt map[int]int, byID map[int]*Term, seen map[int]bool) {
	if seen[t.id] {
		return
	}
	seen[t.id] = true
	if t.op == "ite" && !t.args[0].bound && t.args[0].op != "true" && t.args[0].op != "false" {
		c := t.args[0]
		if c.op == "not" {
			c = c.args[0]
		}
		cnt[c.id]++
		byID[c.id] = c
	}
	for _, a := range t.args {
		iteConds(a, cnt, byID, seen)
	}
}

// retryByGuards re-proves a goal by partial evaluation: the most frequent if-then-else conditions
// of the goal are fixed to true/false in turn and substituted through the path condition and the
// goal (the constructors then fold the merged states back to one path).
func retryByGuards(q *query, en []*Term) []*query {
	cnt := map[int]int{}
	byID := map[int]*Term{}
	iteConds(q.goal, cnt, byID, map[int]bool{})
	if len(cnt) == 0 {
		return nil
	}
	type kv struct {
		id, n int
	}
	var ks []kv
	for id, n := range cnt {
		ks = append(ks, kv{id, n})
	}
	sort.Slice(ks, func(i, j int) bool {
		if ks[i].n != ks[j].n {
			return ks[i].n > ks[j].n
		}
		return ks[i].id < ks[j].id
	})
	if len(ks) > 3 {
		ks = ks[:3]
	}
	var out []*query
	for mask := 0; mask < 1<<len(ks); mask++ {
		m := map[int]*Term{}
		var lits []*Term
		for i, k := range ks {
			c := byID[k.id]
			if mask&(1<<i) != 0 {
				m[c.id] = True
				lits = append(lits, c)
			} else {
				m[c.id] = False
				lits = append(lits, Not(c))
			}
		}
		pc := And(append([]*Term{Subst(q.o.PC, m)}, lits...)...)
		if pc == False {
			continue
		}
		g := Subst(q.goal, m)
		if g == True {
			continue
		}
		for _, g2 := range decomposeGoal(g, 0) {
			nq := &query{o: q.o, goal: g2}
			ng := Not(g2)
			weak := groundInstances(pc, []*Term{g2})
			if weak != pc {
				nq.as0 = append(append([]*Term{}, en...), weak, ng)
			}
			nq.as = append(append([]*Term{}, en...), pc, ng)
			out = append(out, nq)
		}
	}
	return out
}

// retryByCases re-proves a goal that timed out, one control-flow case at a time.
func retryByCases(q *query, en []*Term) []*query {
	cases := splitCases(q.o.PC)
	if len(cases) < 2 {
		return nil
	}
	var out []*query
	ng := Not(q.goal)
	for _, c := range cases {
		nq := &query{o: q.o, goal: q.goal}
		weak := groundInstances(c, []*Term{q.goal})
		if weak != c {
			nq.as0 = append(append([]*Term{}, en...), weak, ng)
		}
		nq.as = append(append([]*Term{}, en...), c, ng)
		out = append(out, nq)
	}
	return out
}

// runQueries (parallel: only renders and solves).
func runQueries(queries []*query, tier string, fast bool) {
	var wg sync.WaitGroup
	slots := make(chan struct{}, 24)
	for _, q := range queries {
		q := q
		wg.Add(1)
		slots <- struct{}{}
		go func() {
			defer wg.Done()
			defer func() { <-slots }()
			q.result = raceQuery(q, tier, fast)
		}()
	}
	wg.Wait()
}

// raceQuery runs a staggered portfolio on one query: the ground-instance form on z3 first, then
// (after 1 s) on cvc5 and on z3 with int-blasting, then (after 3 s) the full quantified query on all
// solvers. `unsat` from any member is conclusive (the ground-instance form has weaker hypotheses);
// `sat` is only accepted from the full query.
func raceQuery(q *query, tier string, fast bool) solveResult {
	limit := 60
	if tier == "thorough" {
		limit = 180
	}
	if fast {
		limit = 3
	}
	ctx, cancel := context.WithCancel(context.Background())
	defer cancel()
	type member struct {
		sd    solverDef
		inst  bool
		delay time.Duration
	}
	var ms []member
	if q.as0 != nil {
		ms = append(ms, member{solvers[0], true, 0})
		ms = append(ms, member{solvers[3], false, 1500 * time.Millisecond}, member{solvers[0], false, 1500 * time.Millisecond})
		if !fast {
			ms = append(ms, member{solvers[3], true, 5 * time.Second}, member{solvers[2], false, 10 * time.Second})
		}
	} else {
		ms = append(ms, member{solvers[0], false, 0}, member{solvers[3], false, 2 * time.Second}, member{solvers[2], false, 4 * time.Second})
	}
	var scripts sync.Map
	render := func(inst, cvc bool) string {
		key := fmt.Sprint(inst, cvc)
		if v, ok := scripts.Load(key); ok {
			return v.(string)
		}
		as := q.as
		if inst {
			as = q.as0
		}
		sc := Script(as, ScriptOpts{Cvc5: cvc, Model: !inst && !fast})
		scripts.Store(key, sc)
		return sc
	}
	ch := make(chan solveResult, len(ms))
	t0 := time.Now()
	for _, m := range ms {
		m := m
		go func() {
			if m.delay > 0 {
				select {
				case <-time.After(m.delay):
				case <-ctx.Done():
					ch <- solveResult{verdict: "unknown"}
					return
				}
			}
			left := limit - int(time.Since(t0).Seconds())
			if left < 1 {
				ch <- solveResult{verdict: "timeout"}
				return
			}
			sem := solverSem
			if m.delay > 0 {
				sem = racerSem
			}
			r := runSolverIn(ctx, sem, m.sd, render(m.inst, m.sd.cvc5), left)
			if m.inst {
				if r.verdict == "unsat" {
					r.solver += " (ground instances)"
				} else {
					r.verdict = "unknown"
				}
			}
			ch <- r
		}()
	}
	best := solveResult{verdict: "timeout", solver: "portfolio"}
	for range ms {
		x := <-ch
		if x.verdict == "unsat" || x.verdict == "sat" {
			x.seconds = time.Since(t0).Seconds()
			if os.Getenv("GVC_DEBUG") == "2" && x.seconds > 3 {
				slowN++
				base := fmt.Sprintf("/tmp/slow_%d_%s", slowN, sanitizeFile(q.o.Name))
				os.WriteFile(base+"_full.smt2", []byte(render(false, false)), 0o644)
				if q.as0 != nil {
					os.WriteFile(base+"_inst.smt2", []byte(render(true, false)), 0o644)
				}
				fmt.Fprintf(os.Stderr, "slow query %s: %.1fs by %s\n", base, x.seconds, x.solver)
			}
			if keepScripts && (x.verdict == "sat" || x.seconds > 2) {
				q.o.Script = render(false, false)
			}
			return x
		}
		if x.verdict == "error" && debugSolver {
			fmt.Fprintf(os.Stderr, "solver error (%s): %s\n", x.solver, firstLines(x.output, 3))
		}
	}
	best.seconds = time.Since(t0).Seconds()
	if keepScripts {
		q.o.Script = render(false, false)
	}
	return best
}

func solveAll(obls []*Obligation, cands []*Candidate, tier string, expectSat bool) {
	en := enableAsserts(cands)
	var queries []*query
	byObl := map[*Obligation][]*query{}
	for _, o := range obls {
		if !expectSat && (o.Goal == True || o.PC == False) {
			o.Verdict, o.Solver = "unsat", "simplifier"
			continue
		}
		qs := buildQueries(o, en, expectSat)
		queries = append(queries, qs...)
		byObl[o] = qs
	}
	runQueries(queries, tier, expectSat)
	if tier == "thorough" && !expectSat {
		confirmQueries(queries)
		for o, qs := range byObl {
			o.Confirm = "confirmed"
			for _, q := range qs {
				switch {
				case strings.HasPrefix(q.confirm, "CONTRADICTED"):
					o.Confirm = q.confirm
				case q.confirm != "confirmed" && o.Confirm == "confirmed":
					o.Confirm = "unconfirmed"
				}
			}
		}
	}
	for o, qs := range byObl {
		o.Verdict = "unsat"
		for qi, q := range qs {
			res := q.result
			if res.verdict != "unsat" && os.Getenv("GVC_DEBUG") == "2" && !expectSat {
				base := "/tmp/q_" + sanitizeFile(o.Name) + "_" + fmt.Sprint(qi)
				os.WriteFile(base+"_full.smt2", []byte(Script(q.as, ScriptOpts{})), 0o644)
				if q.as0 != nil {
					os.WriteFile(base+"_inst.smt2", []byte(Script(q.as0, ScriptOpts{})), 0o644)
				}
				fmt.Fprintf(os.Stderr, "failed piece %d of %s: %s (%s)\n", qi, o.Name, q.goal.String()[:min(300, len(q.goal.String()))], res.verdict)
			}
			if res.seconds > o.Seconds {
				o.Seconds = res.seconds
			}
			if o.Solver == "" || res.verdict != "unsat" {
				o.Solver = res.solver
			}
			if res.verdict != "unsat" && o.Verdict == "unsat" {
				o.Verdict = res.verdict
				o.FailedGoal = q.goal
				if res.verdict == "sat" {
					o.Model = firstLines(res.output, 400)
				} else {
					o.Reason = firstLines(res.output, 3)
				}
			}
		}
	}
}

var keepScripts = false
var slowN int

func decideScripts(scriptZ string, mkC func() string, inst []*Term, tier string) solveResult {
	quick := tier != "thorough"
	s1, s2 := 4, 15
	if !quick {
		s1, s2 = 10, 60
	}
	r := runSolver(context.Background(), solvers[0], scriptZ, s1)
	if r.verdict == "unsat" || r.verdict == "sat" {
		return r
	}
	ctx, cancel := context.WithCancel(context.Background())
	defer cancel()
	ch := make(chan solveResult, 8)
	scriptC := mkC()
	n := 0
	for _, sd := range solvers {
		sd := sd
		sc := scriptZ
		if sd.cvc5 {
			sc = scriptC
		}
		n++
		go func() { ch <- runSolver(ctx, sd, sc, s2) }()
	}
	if inst != nil {
		// the ground-instance query: only `unsat` is conclusive
		iz := Script(inst, ScriptOpts{})
		ic := Script(inst, ScriptOpts{Cvc5: true})
		for _, sd := range []solverDef{solvers[0], solvers[3]} {
			sd := sd
			sc := iz
			if sd.cvc5 {
				sc = ic
			}
			n++
			go func() {
				x := runSolver(ctx, sd, sc, s2)
				if x.verdict == "unsat" {
					x.solver += " (ground instances)"
				} else {
					x.verdict = "unknown"
				}
				ch <- x
			}()
		}
	}
	best := r
	total := r.seconds
	for i := 0; i < n; i++ {
		x := <-ch
		if x.verdict == "unsat" || x.verdict == "sat" {
			x.seconds += total
			return x
		}
		if best.verdict == "error" || (best.verdict == "unknown" && x.verdict == "timeout") {
			best = x
		}
	}
	best.seconds += total
	return best
}

var skMu sync.Mutex

// skolemize replaces the universally quantified variables of a goal by fresh constants
// (the goal is negated in the query, so this is the solver's own first step, done eagerly so
// that E-matching sees ground terms at once). Also descends through implications/conjunction-free goals.
func skolemize(g *Term) *Term {
	skMu.Lock()
	defer skMu.Unlock()
	for depth := 0; depth < 4; depth++ {
		switch {
		case g.op == "forall" && !g.bound:
			m := map[int]*Term{}
			for _, v := range g.qvars {
				m[v.id] = Fresh("sk$"+v.name, v.sort)
			}
			g = Subst(g.args[0], m)
		case g.op == "=>" && g.args[1].op == "forall" && !g.args[1].bound:
			q := g.args[1]
			m := map[int]*Term{}
			for _, v := range q.qvars {
				m[v.id] = Fresh("sk$"+v.name, v.sort)
			}
			g = Implies(g.args[0], Subst(q.args[0], m))
		default:
			return g
		}
	}
	return g
}

// decomposeGoal splits a goal into independently provable pieces: conjunctions are split,
// implications are distributed over conjunctions, universal quantifiers are skolemized.
func decomposeGoal(g *Term, depth int) []*Term {
	if depth > 6 {
		return []*Term{g}
	}
	switch {
	case g.op == "and":
		var out []*Term
		for _, a := range g.args {
			out = append(out, decomposeGoal(a, depth+1)...)
		}
		return out
	case g.op == "forall" && !g.bound:
		return decomposeGoal(skolemize(g), depth+1)
	case g.op == "=>":
		ante := skolemizeExists(g.args[0])
		var out []*Term
		for _, c := range decomposeGoal(g.args[1], depth+1) {
			out = append(out, Implies(ante, c))
		}
		return out
	case g.op == "=" && g.args[0].sort == SBool && (hasQuant(g.args[0], map[int]bool{}) || hasQuant(g.args[1], map[int]bool{})):
		// an equivalence with a quantified side: prove both directions
		var out []*Term
		out = append(out, decomposeGoal(Implies(g.args[0], g.args[1]), depth+1)...)
		out = append(out, decomposeGoal(Implies(g.args[1], g.args[0]), depth+1)...)
		return out
	case g.op == "not" && g.args[0].op == "exists" && !g.args[0].bound:
		// not exists x. P  ==  forall x. not P
		q := g.args[0]
		return decomposeGoal(Forall(q.qvars, Not(q.args[0])), depth+1)
	case g.op == "not" && g.args[0].op == "and":
		// not (A and B and exists..) : as an implication A and B ==> not (exists ..)
		as := g.args[0].args
		for i, a := range as {
			if a.op == "exists" && !a.bound {
				rest := append(append([]*Term{}, as[:i]...), as[i+1:]...)
				return decomposeGoal(Implies(And(rest...), Not(a)), depth+1)
			}
		}
	}
	return []*Term{g}
}

// skolemizeExists replaces top-level existential conjuncts of an antecedent by fresh witnesses.
func skolemizeExists(a *Term) *Term {
	one := func(t *Term) *Term {
		if t.op == "exists" && !t.bound {
			m := map[int]*Term{}
			skMu.Lock()
			for _, v := range t.qvars {
				m[v.id] = Fresh("sk$"+v.name, v.sort)
			}
			skMu.Unlock()
			return Subst(t.args[0], m)
		}
		return t
	}
	if a.op == "and" {
		out := make([]*Term, len(a.args))
		for i, x := range a.args {
			out[i] = one(x)
		}
		return And(out...)
	}
	return one(a)
}

// enablesIn: the candidates whose enable flag occurs in an obligation (its proof may depend on them).
func (r *FuncResult) enablesIn(o *Obligation) []*Candidate {
	byID := map[int]*Candidate{}
	for _, c := range r.Candidates {
		byID[c.Enable.id] = c
	}
	seen := map[int]bool{}
	var out []*Candidate
	var walk func(t *Term)
	walk = func(t *Term) {
		if seen[t.id] {
			return
		}
		seen[t.id] = true
		if c, ok := byID[t.id]; ok {
			out = append(out, c)
		}
		for _, a := range t.args {
			walk(a)
		}
	}
	walk(o.PC)
	walk(o.Goal)
	return out
}
