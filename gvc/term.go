package main

// Hash-consed SMT term DAG with light simplification and a printer that shares sub-terms
// through 0-ary define-funs.

import (
	"fmt"
	"os"
	"math/big"
	"sort"
	"strconv"
	"strings"
)

const (
	SBool  = "Bool"
	SInt   = "Int"
	SRef   = "Ref"
	SFloat = "Float"
)

func BV(n int) string { return "(_ BitVec " + strconv.Itoa(n) + ")" }

func ArrSort(idx, el string) string { return "(Array " + idx + " " + el + ")" }

func bvWidth(s string) int {
	if !strings.HasPrefix(s, "(_ BitVec ") {
		return 0
	}
	n, _ := strconv.Atoi(strings.TrimSuffix(strings.TrimPrefix(s, "(_ BitVec "), ")"))
	return n
}

// arrParts splits "(Array A B)" into A and B.
func arrParts(s string) (string, string) {
	if !strings.HasPrefix(s, "(Array ") {
		panic("not an array sort: " + s)
	}
	body := s[len("(Array ") : len(s)-1]
	depth := 0
	for i, c := range body {
		switch c {
		case '(':
			depth++
		case ')':
			depth--
		case ' ':
			if depth == 0 {
				return body[:i], body[i+1:]
			}
		}
	}
	panic("bad array sort " + s)
}

type Term struct {
	id    int
	op    string // SMT operator, "var" (declared constant), "bv", "int", "true", "false", "bound", "app" (uninterpreted fn)
	name  string // for var/app/bound: symbol
	args  []*Term
	sort  string
	val   *big.Int // for bv/int literals
	bound bool     // contains a bound variable
	facts []*Term  // side axioms that must be asserted whenever this term occurs
	qvars []*Term  // for forall/exists
	pats  []*Term  // for forall: patterns
}

type TermStore struct {
	tab   map[string]*Term
	n     int
	fresh map[string]int
	// declared uninterpreted functions: name -> signature
	funs map[string]funSig
}

type funSig struct {
	args []string
	ret  string
}

var TS = &TermStore{tab: map[string]*Term{}, fresh: map[string]int{}, funs: map[string]funSig{}}

func (ts *TermStore) mk(t *Term) *Term {
	var sb strings.Builder
	sb.WriteString(t.op)
	sb.WriteByte('|')
	sb.WriteString(t.name)
	sb.WriteByte('|')
	sb.WriteString(t.sort)
	if t.val != nil {
		sb.WriteByte('|')
		sb.WriteString(t.val.String())
	}
	for _, a := range t.args {
		sb.WriteByte(',')
		sb.WriteString(strconv.Itoa(a.id))
		if a.bound {
			t.bound = true
		}
	}
	for _, a := range t.qvars {
		sb.WriteString(";q")
		sb.WriteString(strconv.Itoa(a.id))
	}
	for _, a := range t.pats {
		sb.WriteString(";p")
		sb.WriteString(strconv.Itoa(a.id))
	}
	k := sb.String()
	if old, ok := ts.tab[k]; ok {
		return old
	}
	ts.n++
	t.id = ts.n
	ts.tab[k] = t
	return t
}

var (
	True  = TS.mk(&Term{op: "true", sort: SBool})
	False = TS.mk(&Term{op: "false", sort: SBool})
	Null  = Var("null", SRef)
)

func sanitize(s string) string {
	var sb strings.Builder
	for _, c := range s {
		switch {
		case c >= 'a' && c <= 'z', c >= 'A' && c <= 'Z', c >= '0' && c <= '9', c == '_', c == '.', c == '!', c == '$', c == '~', c == '@':
			sb.WriteRune(c)
		case c == '#':
			sb.WriteString("$f")
		case c == '*':
			sb.WriteString("$p")
		case c == '/':
			sb.WriteString("$s")
		case c == '[':
			sb.WriteString("$l")
		case c == ']':
			sb.WriteString("$r")
		case c == '(' || c == ')':
			sb.WriteString("$")
		case c == ' ':
			sb.WriteString("_")
		default:
			sb.WriteString("$x" + strconv.Itoa(int(c)))
		}
	}
	return sb.String()
}

func Var(name, sort string) *Term {
	return TS.mk(&Term{op: "var", name: sanitize(name), sort: sort})
}

func Fresh(prefix, sort string) *Term {
	p := sanitize(prefix)
	TS.fresh[p]++
	return TS.mk(&Term{op: "var", name: p + "!" + strconv.Itoa(TS.fresh[p]), sort: sort})
}

func Bound(name, sort string) *Term {
	TS.fresh["%b"]++
	t := TS.mk(&Term{op: "bound", name: sanitize(name) + "%" + strconv.Itoa(TS.fresh["%b"]), sort: sort})
	t.bound = true
	return t
}

func BVLit(v *big.Int, w int) *Term {
	m := new(big.Int).Lsh(big.NewInt(1), uint(w))
	x := new(big.Int).Mod(v, m)
	return TS.mk(&Term{op: "bv", sort: BV(w), val: x})
}

func BVu(v uint64, w int) *Term { return BVLit(new(big.Int).SetUint64(v), w) }
func BVi(v int64, w int) *Term  { return BVLit(big.NewInt(v), w) }

func IntLit(v int64) *Term { return TS.mk(&Term{op: "int", sort: SInt, val: big.NewInt(v)}) }

func Bool(b bool) *Term {
	if b {
		return True
	}
	return False
}

// App applies an uninterpreted function (declared on first use).
func App(name string, ret string, args ...*Term) *Term {
	name = sanitize(name)
	if _, ok := TS.funs[name]; !ok {
		sig := funSig{ret: ret}
		for _, a := range args {
			sig.args = append(sig.args, a.sort)
		}
		TS.funs[name] = sig
	} else {
		sig := TS.funs[name]
		if sig.ret != ret || len(sig.args) != len(args) {
			panic(fmt.Sprintf("uninterpreted function %s used with inconsistent signature", name))
		}
		for i, a := range args {
			if sig.args[i] != a.sort {
				panic(fmt.Sprintf("uninterpreted function %s arg %d: %s vs %s", name, i, sig.args[i], a.sort))
			}
		}
	}
	return TS.mk(&Term{op: "app", name: name, args: args, sort: ret})
}

func (t *Term) isLit() bool  { return t.op == "bv" || t.op == "int" }
func (t *Term) isTrue() bool { return t == True }
func (t *Term) isFalse() bool {
	return t == False
}

func Not(a *Term) *Term {
	if a == True {
		return False
	}
	if a == False {
		return True
	}
	if a.op == "not" {
		return a.args[0]
	}
	return TS.mk(&Term{op: "not", args: []*Term{a}, sort: SBool})
}

func And(as ...*Term) *Term {
	var out []*Term
	seen := map[int]bool{}
	for _, a := range as {
		if a == nil || a == True {
			continue
		}
		if a == False {
			return False
		}
		if a.op == "and" {
			for _, b := range a.args {
				if !seen[b.id] {
					seen[b.id] = true
					out = append(out, b)
				}
			}
			continue
		}
		if !seen[a.id] {
			seen[a.id] = true
			out = append(out, a)
		}
	}
	for _, a := range out {
		if a.op == "not" && seen[a.args[0].id] {
			return False
		}
	}
	if len(out) == 0 {
		return True
	}
	if len(out) == 1 {
		return out[0]
	}
	return TS.mk(&Term{op: "and", args: out, sort: SBool})
}

func Or(as ...*Term) *Term {
	var out []*Term
	seen := map[int]bool{}
	for _, a := range as {
		if a == nil || a == False {
			continue
		}
		if a == True {
			return True
		}
		if a.op == "or" {
			for _, b := range a.args {
				if !seen[b.id] {
					seen[b.id] = true
					out = append(out, b)
				}
			}
			continue
		}
		if !seen[a.id] {
			seen[a.id] = true
			out = append(out, a)
		}
	}
	for _, a := range out {
		if a.op == "not" && seen[a.args[0].id] {
			return True
		}
	}
	if len(out) == 0 {
		return False
	}
	if len(out) == 1 {
		return out[0]
	}
	return TS.mk(&Term{op: "or", args: out, sort: SBool})
}

func Implies(a, b *Term) *Term {
	if a == True {
		return b
	}
	if a == False || b == True {
		return True
	}
	if b == False {
		return Not(a)
	}
	return TS.mk(&Term{op: "=>", args: []*Term{a, b}, sort: SBool})
}

func Ite(c, a, b *Term) *Term {
	if c == True {
		return a
	}
	if c == False {
		return b
	}
	if a == b {
		return a
	}
	if a.sort != b.sort {
		panic(fmt.Sprintf("ite sort mismatch %s vs %s", a.sort, b.sort))
	}
	if a.sort == SBool {
		if a == True && b == False {
			return c
		}
		if a == False && b == True {
			return Not(c)
		}
		if a == True {
			return Or(c, b)
		}
		if b == False {
			return And(c, a)
		}
		if a == False {
			return And(Not(c), b)
		}
		if b == True {
			return Or(Not(c), a)
		}
	}
	return TS.mk(&Term{op: "ite", args: []*Term{c, a, b}, sort: a.sort})
}

func Eq(a, b *Term) *Term {
	if a == b {
		return True
	}
	if a.sort != b.sort {
		panic(fmt.Sprintf("eq sort mismatch %s vs %s (%s, %s)", a.sort, b.sort, a.String(), b.String()))
	}
	if a.isLit() && b.isLit() {
		return Bool(a.val.Cmp(b.val) == 0)
	}
	if a.sort == SBool {
		if a == True {
			return b
		}
		if b == True {
			return a
		}
		if a == False {
			return Not(b)
		}
		if b == False {
			return Not(a)
		}
	}
	if a.id > b.id {
		a, b = b, a
	}
	return TS.mk(&Term{op: "=", args: []*Term{a, b}, sort: SBool})
}

func Neq(a, b *Term) *Term { return Not(Eq(a, b)) }

func Select(arr, idx *Term) *Term {
	is, es := arrParts(arr.sort)
	if is != idx.sort {
		panic(fmt.Sprintf("select index sort %s vs %s", is, idx.sort))
	}
	// select(store(a,i,v), i) = v ; skip over stores at provably different literal indices
	cur := arr
	for cur.op == "store" {
		if cur.args[1] == idx {
			return cur.args[2]
		}
		if cur.args[1].isLit() && idx.isLit() {
			cur = cur.args[0]
			continue
		}
		break
	}
	if cur.op == "constarr" {
		return cur.args[0]
	}
	return TS.mk(&Term{op: "select", args: []*Term{cur, idx}, sort: es})
}

func Store(arr, idx, v *Term) *Term {
	is, es := arrParts(arr.sort)
	if is != idx.sort || es != v.sort {
		panic(fmt.Sprintf("store sort mismatch: %s [%s] := %s", arr.sort, idx.sort, v.sort))
	}
	if arr.op == "store" && arr.args[1] == idx {
		arr = arr.args[0]
	}
	return TS.mk(&Term{op: "store", args: []*Term{arr, idx, v}, sort: arr.sort})
}

func ConstArr(sort string, v *Term) *Term {
	return TS.mk(&Term{op: "constarr", args: []*Term{v}, sort: sort})
}

func mask(w int) *big.Int {
	m := new(big.Int).Lsh(big.NewInt(1), uint(w))
	return m.Sub(m, big.NewInt(1))
}

func toSigned(v *big.Int, w int) *big.Int {
	if v.Bit(w-1) == 1 {
		return new(big.Int).Sub(v, new(big.Int).Lsh(big.NewInt(1), uint(w)))
	}
	return new(big.Int).Set(v)
}

// BVOp builds a binary bit-vector operation with constant folding.
func BVOp(op string, a, b *Term) *Term {
	if a.sort != b.sort {
		panic(fmt.Sprintf("bvop %s sort mismatch %s vs %s", op, a.sort, b.sort))
	}
	w := bvWidth(a.sort)
	if a.isLit() && b.isLit() {
		x, y := a.val, b.val
		r := new(big.Int)
		ok := true
		switch op {
		case "bvadd":
			r.Add(x, y)
		case "bvsub":
			r.Sub(x, y)
		case "bvmul":
			r.Mul(x, y)
		case "bvand":
			r.And(x, y)
		case "bvor":
			r.Or(x, y)
		case "bvxor":
			r.Xor(x, y)
		case "bvshl":
			if y.Cmp(big.NewInt(int64(w))) >= 0 {
				r.SetInt64(0)
			} else {
				r.Lsh(x, uint(y.Uint64()))
			}
		case "bvlshr":
			if y.Cmp(big.NewInt(int64(w))) >= 0 {
				r.SetInt64(0)
			} else {
				r.Rsh(x, uint(y.Uint64()))
			}
		case "bvudiv":
			if y.Sign() == 0 {
				ok = false
			} else {
				r.Div(x, y)
			}
		case "bvurem":
			if y.Sign() == 0 {
				ok = false
			} else {
				r.Mod(x, y)
			}
		default:
			ok = false
		}
		if ok {
			return BVLit(r, w)
		}
	}
	switch op {
	case "bvadd":
		if a.isLit() && a.val.Sign() == 0 {
			return b
		}
		if b.isLit() && b.val.Sign() == 0 {
			return a
		}
		// (x + c1) + c2
		if b.isLit() && a.op == "bvadd" && a.args[1].isLit() {
			return BVOp("bvadd", a.args[0], BVOp("bvadd", a.args[1], b))
		}
		if a.isLit() && !b.isLit() {
			a, b = b, a
		}
	case "bvsub":
		if b.isLit() && b.val.Sign() == 0 {
			return a
		}
		if a == b {
			return BVu(0, w)
		}
		if b.isLit() {
			return BVOp("bvadd", a, BVLit(new(big.Int).Neg(b.val), w))
		}
	case "bvmul":
		if b.isLit() && b.val.Cmp(big.NewInt(1)) == 0 {
			return a
		}
		if a.isLit() && a.val.Cmp(big.NewInt(1)) == 0 {
			return b
		}
	case "bvand":
		if a == b {
			return a
		}
	case "bvor":
		if a == b {
			return a
		}
		if b.isLit() && b.val.Sign() == 0 {
			return a
		}
		if a.isLit() && a.val.Sign() == 0 {
			return b
		}
	case "bvshl", "bvlshr", "bvashr":
		if b.isLit() && b.val.Sign() == 0 {
			return a
		}
	}
	return TS.mk(&Term{op: op, args: []*Term{a, b}, sort: a.sort})
}

// BVCmp builds a comparison (bvult, bvule, bvslt, bvsle, ...).
func BVCmp(op string, a, b *Term) *Term {
	if a.sort != b.sort {
		panic(fmt.Sprintf("bvcmp %s sort mismatch %s vs %s", op, a.sort, b.sort))
	}
	w := bvWidth(a.sort)
	if a.isLit() && b.isLit() {
		x, y := a.val, b.val
		switch op {
		case "bvult":
			return Bool(x.Cmp(y) < 0)
		case "bvule":
			return Bool(x.Cmp(y) <= 0)
		case "bvugt":
			return Bool(x.Cmp(y) > 0)
		case "bvuge":
			return Bool(x.Cmp(y) >= 0)
		case "bvslt":
			return Bool(toSigned(x, w).Cmp(toSigned(y, w)) < 0)
		case "bvsle":
			return Bool(toSigned(x, w).Cmp(toSigned(y, w)) <= 0)
		case "bvsgt":
			return Bool(toSigned(x, w).Cmp(toSigned(y, w)) > 0)
		case "bvsge":
			return Bool(toSigned(x, w).Cmp(toSigned(y, w)) >= 0)
		}
	}
	if a == b {
		switch op {
		case "bvule", "bvuge", "bvsle", "bvsge":
			return True
		default:
			return False
		}
	}
	return TS.mk(&Term{op: op, args: []*Term{a, b}, sort: SBool})
}

func BVNeg(a *Term) *Term {
	w := bvWidth(a.sort)
	if a.isLit() {
		return BVLit(new(big.Int).Neg(a.val), w)
	}
	return TS.mk(&Term{op: "bvneg", args: []*Term{a}, sort: a.sort})
}

func BVNot(a *Term) *Term {
	w := bvWidth(a.sort)
	if a.isLit() {
		return BVLit(new(big.Int).Xor(a.val, mask(w)), w)
	}
	return TS.mk(&Term{op: "bvnot", args: []*Term{a}, sort: a.sort})
}

// Resize converts a bit-vector to width w (zero- or sign-extending, or truncating).
func Resize(a *Term, w int, signed bool) *Term {
	aw := bvWidth(a.sort)
	if aw == w {
		return a
	}
	if a.isLit() {
		if signed {
			return BVLit(toSigned(a.val, aw), w)
		}
		return BVLit(a.val, w)
	}
	if w < aw {
		return TS.mk(&Term{op: "extract", name: fmt.Sprintf("%d 0", w-1), args: []*Term{a}, sort: BV(w)})
	}
	op := "zero_extend"
	if signed {
		op = "sign_extend"
	}
	return TS.mk(&Term{op: op, name: strconv.Itoa(w - aw), args: []*Term{a}, sort: BV(w)})
}

func IntOp(op string, a, b *Term) *Term {
	if a.isLit() && b.isLit() {
		switch op {
		case "+":
			return IntLit(new(big.Int).Add(a.val, b.val).Int64())
		case "<":
			return Bool(a.val.Cmp(b.val) < 0)
		case "<=":
			return Bool(a.val.Cmp(b.val) <= 0)
		}
	}
	s := SInt
	if op == "<" || op == "<=" || op == ">" || op == ">=" {
		s = SBool
	}
	return TS.mk(&Term{op: op, args: []*Term{a, b}, sort: s})
}

func Forall(vars []*Term, body *Term, pats ...*Term) *Term {
	if body == True {
		return True
	}
	t := &Term{op: "forall", args: []*Term{body}, sort: SBool, qvars: vars, pats: pats}
	r := TS.mk(t)
	r.bound = closedOver(r)
	return r
}

func Exists(vars []*Term, body *Term) *Term {
	if body == False {
		return False
	}
	t := &Term{op: "exists", args: []*Term{body}, sort: SBool, qvars: vars}
	r := TS.mk(t)
	r.bound = closedOver(r)
	return r
}

// closedOver reports whether the quantified term still has free bound variables
// (bound by an enclosing quantifier).
func closedOver(q *Term) bool {
	bound := map[int]bool{}
	for _, v := range q.qvars {
		bound[v.id] = true
	}
	free := false
	seen := map[int]bool{}
	var walk func(t *Term, env map[int]bool)
	walk = func(t *Term, env map[int]bool) {
		if free || !t.bound {
			return
		}
		if t.op == "bound" {
			if !env[t.id] {
				free = true
			}
			return
		}
		if t.op == "forall" || t.op == "exists" {
			e2 := map[int]bool{}
			for k := range env {
				e2[k] = true
			}
			for _, v := range t.qvars {
				e2[v.id] = true
			}
			for _, a := range t.args {
				walk(a, e2)
			}
			return
		}
		if seen[t.id] {
			return
		}
		seen[t.id] = true
		for _, a := range t.args {
			walk(a, env)
		}
	}
	walk(q.args[0], bound)
	return free
}

// Subst replaces variables/bound variables (by id) throughout t.
func Subst(t *Term, m map[int]*Term) *Term {
	cache := map[int]*Term{}
	var rec func(t *Term) *Term
	rec = func(t *Term) *Term {
		if r, ok := m[t.id]; ok {
			return r
		}
		if len(t.args) == 0 {
			return t
		}
		if r, ok := cache[t.id]; ok {
			return r
		}
		na := make([]*Term, len(t.args))
		ch := false
		for i, a := range t.args {
			na[i] = rec(a)
			if na[i] != a {
				ch = true
			}
		}
		var np []*Term
		for _, p := range t.pats {
			q := rec(p)
			if q != p {
				ch = true
			}
			np = append(np, q)
		}
		r := t
		if ch {
			r = rebuild(t, na, np)
		}
		cache[t.id] = r
		return r
	}
	return rec(t)
}

func rebuild(t *Term, na []*Term, np []*Term) *Term {
	switch t.op {
	case "not":
		return Not(na[0])
	case "and":
		return And(na...)
	case "or":
		return Or(na...)
	case "=>":
		return Implies(na[0], na[1])
	case "ite":
		return Ite(na[0], na[1], na[2])
	case "=":
		return Eq(na[0], na[1])
	case "select":
		return Select(na[0], na[1])
	case "store":
		return Store(na[0], na[1], na[2])
	case "forall":
		return Forall(t.qvars, na[0], np...)
	case "exists":
		return Exists(t.qvars, na[0])
	case "bvadd", "bvsub", "bvmul", "bvand", "bvor", "bvxor", "bvshl", "bvlshr", "bvashr", "bvudiv", "bvurem", "bvsdiv", "bvsrem":
		return BVOp(t.op, na[0], na[1])
	case "bvult", "bvule", "bvugt", "bvuge", "bvslt", "bvsle", "bvsgt", "bvsge":
		return BVCmp(t.op, na[0], na[1])
	case "bvneg":
		return BVNeg(na[0])
	case "bvnot":
		return BVNot(na[0])
	}
	nt := &Term{op: t.op, name: t.name, args: na, sort: t.sort, val: t.val, qvars: t.qvars, pats: np}
	r := TS.mk(nt)
	if len(t.facts) > 0 && len(r.facts) == 0 {
		// facts are tied to the term's identity; re-derive is the caller's business
	}
	return r
}

func (t *Term) AddFact(f *Term) {
	for _, g := range t.facts {
		if g == f {
			return
		}
	}
	t.facts = append(t.facts, f)
}

// ---------------------------------------------------------------- printing

func (t *Term) String() string {
	var sb strings.Builder
	printTerm(&sb, t, nil)
	return sb.String()
}

func sortDecl(s string) string { return s }

func printTerm(sb *strings.Builder, t *Term, named map[int]string) {
	if named != nil {
		if n, ok := named[t.id]; ok {
			sb.WriteString(n)
			return
		}
	}
	switch t.op {
	case "true", "false":
		sb.WriteString(t.op)
	case "var", "bound":
		sb.WriteString(t.name)
	case "bv":
		fmt.Fprintf(sb, "(_ bv%s %d)", t.val.String(), bvWidth(t.sort))
	case "int":
		if t.val.Sign() < 0 {
			fmt.Fprintf(sb, "(- %s)", new(big.Int).Neg(t.val).String())
		} else {
			sb.WriteString(t.val.String())
		}
	case "app":
		if len(t.args) == 0 {
			sb.WriteString(t.name)
			return
		}
		sb.WriteString("(" + t.name)
		for _, a := range t.args {
			sb.WriteByte(' ')
			printTerm(sb, a, named)
		}
		sb.WriteByte(')')
	case "extract":
		sb.WriteString("((_ extract " + t.name + ") ")
		printTerm(sb, t.args[0], named)
		sb.WriteByte(')')
	case "zero_extend", "sign_extend":
		sb.WriteString("((_ " + t.op + " " + t.name + ") ")
		printTerm(sb, t.args[0], named)
		sb.WriteByte(')')
	case "constarr":
		sb.WriteString("((as const " + t.sort + ") ")
		printTerm(sb, t.args[0], named)
		sb.WriteByte(')')
	case "forall", "exists":
		sb.WriteString("(" + t.op + " (")
		for _, v := range t.qvars {
			sb.WriteString("(" + v.name + " " + v.sort + ")")
		}
		sb.WriteString(") ")
		if len(t.pats) > 0 {
			sb.WriteString("(! ")
		}
		printTerm(sb, t.args[0], named)
		if len(t.pats) > 0 {
			for _, p := range t.pats {
				sb.WriteString(" :pattern (")
				printTerm(sb, p, named)
				sb.WriteString(")")
			}
			sb.WriteString(")")
		}
		sb.WriteByte(')')
	default:
		sb.WriteString("(" + t.op)
		for _, a := range t.args {
			sb.WriteByte(' ')
			printTerm(sb, a, named)
		}
		sb.WriteByte(')')
	}
}

// Script renders a satisfiability query: all asserts conjoined. Facts attached to any
// reachable term are asserted too (transitively).
func Script(asserts []*Term, opts ScriptOpts) string {
	return scriptImpl(asserts, opts, nil)
}

// ScriptObs renders the query with named observables and a get-value command.
func ScriptObs(asserts []*Term, obs []observable) string {
	return scriptImpl(asserts, ScriptOpts{}, obs)
}

func scriptImpl(asserts []*Term, opts ScriptOpts, obs []observable) string {
	// phase 1: collect reachable terms, including through facts (facts become roots)
	var all []*Term
	seen := map[int]bool{}
	var roots []*Term
	isRoot := map[int]bool{}
	var collect func(t *Term)
	collect = func(t *Term) {
		if seen[t.id] {
			return
		}
		seen[t.id] = true
		all = append(all, t)
		for _, a := range t.args {
			collect(a)
		}
		for _, p := range t.pats {
			collect(p)
		}
		for _, f := range t.facts {
			if !isRoot[f.id] {
				isRoot[f.id] = true
				roots = append(roots, f)
			}
			collect(f)
		}
	}
	for _, a := range asserts {
		if !isRoot[a.id] {
			isRoot[a.id] = true
			roots = append(roots, a)
		}
		collect(a)
	}
	for _, o := range obs {
		collect(o.t)
	}
	// phase 2: reference counts and a topological order over args/pats only
	refs := map[int]int{}
	for _, t := range all {
		for _, a := range t.args {
			refs[a.id]++
		}
		for _, p := range t.pats {
			refs[p.id]++
		}
	}
	for _, r := range roots {
		refs[r.id]++
	}
	for _, o := range obs {
		refs[o.t.id]++
	}
	var order []*Term
	done := map[int]bool{}
	var topo func(t *Term)
	topo = func(t *Term) {
		if done[t.id] {
			return
		}
		done[t.id] = true
		for _, a := range t.args {
			topo(a)
		}
		for _, p := range t.pats {
			topo(p)
		}
		order = append(order, t)
	}
	for _, t := range all {
		topo(t)
	}
	var sb strings.Builder
	if opts.Cvc5 {
		sb.WriteString("(set-option :produce-models true)\n")
	}
	sb.WriteString("(set-logic ALL)\n")
	if !opts.Cvc5 {
		sb.WriteString("(set-option :produce-models true)\n")
	}
	sb.WriteString("(declare-sort Ref 0)\n(declare-sort Float 0)\n")
	// declarations
	var vars []*Term
	funs := map[string]bool{}
	for _, t := range order {
		if t.op == "var" {
			vars = append(vars, t)
		}
		if t.op == "app" {
			funs[t.name] = true
		}
	}
	sort.Slice(vars, func(i, j int) bool { return vars[i].name < vars[j].name })
	for _, v := range vars {
		fmt.Fprintf(&sb, "(declare-fun %s () %s)\n", v.name, v.sort)
	}
	var fn []string
	for f := range funs {
		fn = append(fn, f)
	}
	sort.Strings(fn)
	for _, f := range fn {
		sig := TS.funs[f]
		fmt.Fprintf(&sb, "(declare-fun %s (%s) %s)\n", f, strings.Join(sig.args, " "), sig.ret)
	}
	// shared sub-terms
	named := map[int]string{}
	for _, t := range order {
		if t.bound || len(t.args) == 0 || t.op == "forall" || t.op == "exists" {
			continue
		}
		if refs[t.id] > 1 {
			var b strings.Builder
			printTerm(&b, t, named)
			n := "t" + strconv.Itoa(t.id)
			if b.Len() > 20000000 {
				os.WriteFile("/tmp/big.smt2", []byte(sb.String()+"\n;;;; BIG "+n+"\n"+b.String()[:3000000]), 0o644)
				cnt := map[int]int{}
				var walk func(x *Term, d int)
				steps := 0
				walk = func(x *Term, d int) {
					if steps > 2000000 {
						return
					}
					steps++
					if _, ok := named[x.id]; ok {
						return
					}
					cnt[x.id]++
					for _, a := range x.args {
						walk(a, d+1)
					}
				}
				walk(t, 0)
				byID := map[int]*Term{}
				for _, x := range order {
					byID[x.id] = x
				}
				nrep := 0
				for id, c := range cnt {
					if c > 3 && len(byID[id].args) > 0 && nrep < 15 {
						x := byID[id]
						pos := -1
						for i, y := range order {
							if y == x {
								pos = i
							}
						}
						tpos := -1
						for i, y := range order {
							if y == t {
								tpos = i
							}
						}
						fmt.Fprintf(os.Stderr, "  repeated unnamed t%d op=%s nargs=%d occurrences>=%d refs=%d bound=%v orderpos=%d (parent at %d)\n", id, x.op, len(x.args), c, refs[id], x.bound, pos, tpos)
						nrep++
					}
				}
				panic("script too large")
			}
			fmt.Fprintf(&sb, "(define-fun %s () %s %s)\n", n, t.sort, b.String())
			named[t.id] = n
		}
	}
	emitted := map[int]bool{}
	for _, r := range roots {
		if emitted[r.id] || r == True {
			continue
		}
		emitted[r.id] = true
		var b strings.Builder
		printTerm(&b, r, named)
		fmt.Fprintf(&sb, "(assert %s)\n", b.String())
	}
	for _, o := range obs {
		var b strings.Builder
		printTerm(&b, o.t, named)
		fmt.Fprintf(&sb, "(define-fun %s () %s %s)\n", o.name, o.t.sort, b.String())
	}
	sb.WriteString("(check-sat)\n")
	if opts.Model {
		sb.WriteString("(get-model)\n")
	}
	if len(obs) > 0 {
		sb.WriteString("(get-value (")
		for _, o := range obs {
			sb.WriteString(o.name + " ")
		}
		sb.WriteString("))\n")
	}
	return sb.String()
}

type ScriptOpts struct {
	Cvc5  bool
	Model bool
}

// treeSize computes the printed size of a term when only refs>1 non-bound terms are shared
// (debugging aid for blow-ups).
func treeSizeDebug(root *Term) {
	memo := map[int]float64{}
	var size func(t *Term) float64
	size = func(t *Term) float64 {
		if v, ok := memo[t.id]; ok {
			return v
		}
		s := 1.0
		for _, a := range t.args {
			s += size(a)
		}
		memo[t.id] = s
		return s
	}
	total := size(root)
	fmt.Fprintf(os.Stderr, "tree size %.3g, dag size %d\n", total, len(memo))
	// walk down the heaviest path among bound terms
	cur := root
	for depth := 0; depth < 60 && len(cur.args) > 0; depth++ {
		var best *Term
		for _, a := range cur.args {
			if best == nil || memo[a.id] > memo[best.id] {
				best = a
			}
		}
		fmt.Fprintf(os.Stderr, "  %s(%d args, bound=%v) size %.3g\n", cur.op+cur.name, len(cur.args), cur.bound, memo[cur.id])
		cur = best
	}
}

// printSizeDebug reports which shared definitions have the largest inline size.
func printSizeDebug(asserts []*Term) {
	refs := map[int]int{}
	seen := map[int]bool{}
	var order []*Term
	var visit func(t *Term)
	visit = func(t *Term) {
		refs[t.id]++
		if seen[t.id] {
			return
		}
		seen[t.id] = true
		for _, a := range t.args {
			visit(a)
		}
		for _, p := range t.pats {
			visit(p)
		}
		order = append(order, t)
		for _, f := range t.facts {
			visit(f)
		}
	}
	for _, a := range asserts {
		visit(a)
	}
	isNamed := func(t *Term) bool {
		return !(t.bound || len(t.args) == 0 || t.op == "forall" || t.op == "exists") && refs[t.id] > 1
	}
	memo := map[int]float64{}
	var inl func(t *Term, top bool) float64
	inl = func(t *Term, top bool) float64 {
		if !top && isNamed(t) {
			return 1
		}
		if v, ok := memo[t.id]; ok {
			return v
		}
		s := 1.0
		for _, a := range t.args {
			s += inl(a, false)
		}
		memo[t.id] = s
		return s
	}
	type kv struct {
		t *Term
		s float64
	}
	var big []kv
	total := 0.0
	for _, t := range order {
		if isNamed(t) {
			s := inl(t, true)
			total += s
			if s > 1e5 {
				big = append(big, kv{t, s})
			}
		}
	}
	fmt.Fprintf(os.Stderr, "total inline size of definitions %.3g; %d terms\n", total, len(order))
	for i, b := range big {
		if i > 5 {
			break
		}
		fmt.Fprintf(os.Stderr, "  def t%d op=%s size %.3g bound=%v\n", b.t.id, b.t.op, b.s, b.t.bound)
		cur := b.t
		for d := 0; d < 30 && len(cur.args) > 0; d++ {
			var best *Term
			for _, a := range cur.args {
				if isNamed(a) {
					continue
				}
				if best == nil || memo[a.id] > memo[best.id] {
					best = a
				}
			}
			if best == nil {
				break
			}
			fmt.Fprintf(os.Stderr, "     %s%s args=%d refs=%d bound=%v size=%.3g\n", best.op, best.name, len(best.args), refs[best.id], best.bound, memo[best.id])
			cur = best
		}
	}
	for _, a := range asserts {
		fmt.Fprintf(os.Stderr, "  assert inline size %.3g\n", inl(a, true))
	}
}
