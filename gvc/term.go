package main

// Hash-consed SMT term DAG with light simplification and a printer that shares sub-terms
// through 0-ary define-funs.

import (
	"fmt"
	"os"
	"math/big"
	"sort"
	"strconv"
	"strings"
)

const (
	SBool  = "Bool"
	SInt   = "Int"
	SRef   = "Ref"
	SFloat = "Float"
)

func BV(n int) string { return "(_ BitVec " + strconv.Itoa(n) + ")" }

func ArrSort(idx, el string) string { return "(Array " + idx + " " + el + ")" }

func bvWidth(s string) int {
	if !strings.HasPrefix(s, "(_ BitVec ") {
		return 0
	}
	n, _ := strconv.Atoi(strings.TrimSuffix(strings.TrimPrefix(s, "(_ BitVec "), ")"))
	return n
}

// arrParts splits "(Array A B)" into A and B.
func arrParts(s string) (string, string) {
	if !strings.HasPrefix(s, "(Array ") {
		panic("not an array sort: " + s)
	}
	body := s[len("(Array ") : len(s)-1]
	depth := 0
	for i, c := range body {
		switch c {
		case '(':
			depth++
		case ')':
			depth--
		case ' ':
			if depth == 0 {
				return body[:i], body[i+1:]
			}
		}
	}
	panic("bad array sort " + s)
}

type Term struct {
	id    int
	op    string // SMT operator, "var" (declared constant), "bv", "int", "true", "false", "bound", "app" (uninterpreted fn)
	name  string // for var/app/bound: symbol
	args  []*Term
	sort  string
	val   *big.Int // for bv/int literals
	bound bool     // contains a bound variable
	facts []*Term  // side axioms that must be asserted whenever this term occurs
	qvars []*Term  // for forall/exists
	coef  []*big.Int // for lin: coefficient of each arg (val holds the constant)
	pats  []*Term  // for forall: patterns
}

type TermStore struct {
	tab   map[string]*Term
	n     int
	fresh map[string]int
	// declared uninterpreted functions: name -> signature
	funs map[string]funSig
}

type funSig struct {
	args []string
	ret  string
}

var TS = &TermStore{tab: map[string]*Term{}, fresh: map[string]int{}, funs: map[string]funSig{}}

func (ts *TermStore) mk(t *Term) *Term {
	var sb strings.Builder
	sb.WriteString(t.op)
	sb.WriteByte('|')
	sb.WriteString(t.name)
	sb.WriteByte('|')
	sb.WriteString(t.sort)
	if t.val != nil {
		sb.WriteByte('|')
		sb.WriteString(t.val.String())
	}
	for _, a := range t.args {
		sb.WriteByte(',')
		sb.WriteString(strconv.Itoa(a.id))
		if a.bound {
			t.bound = true
		}
	}
	for _, c := range t.coef {
		sb.WriteString(";c")
		sb.WriteString(c.String())
	}
	for _, a := range t.qvars {
		sb.WriteString(";q")
		sb.WriteString(strconv.Itoa(a.id))
	}
	for _, a := range t.pats {
		sb.WriteString(";p")
		sb.WriteString(strconv.Itoa(a.id))
	}
	k := sb.String()
	if old, ok := ts.tab[k]; ok {
		return old
	}
	ts.n++
	t.id = ts.n
	ts.tab[k] = t
	return t
}

var (
	True  = TS.mk(&Term{op: "true", sort: SBool})
	False = TS.mk(&Term{op: "false", sort: SBool})
	Null  = Var("null", SRef)
)

func sanitize(s string) string {
	var sb strings.Builder
	for _, c := range s {
		switch {
		case c >= 'a' && c <= 'z', c >= 'A' && c <= 'Z', c >= '0' && c <= '9', c == '_', c == '.', c == '!', c == '$', c == '~', c == '@':
			sb.WriteRune(c)
		case c == '#':
			sb.WriteString("$f")
		case c == '*':
			sb.WriteString("$p")
		case c == '/':
			sb.WriteString("$s")
		case c == '[':
			sb.WriteString("$l")
		case c == ']':
			sb.WriteString("$r")
		case c == '(' || c == ')':
			sb.WriteString("$")
		case c == ' ':
			sb.WriteString("_")
		default:
			sb.WriteString("$x" + strconv.Itoa(int(c)))
		}
	}
	return sb.String()
}

func Var(name, sort string) *Term {
	return TS.mk(&Term{op: "var", name: sanitize(name), sort: sort})
}

func Fresh(prefix, sort string) *Term {
	p := sanitize(prefix)
	TS.fresh[p]++
	return TS.mk(&Term{op: "var", name: p + "!" + strconv.Itoa(TS.fresh[p]), sort: sort})
}

func Bound(name, sort string) *Term {
	TS.fresh["%b"]++
	t := TS.mk(&Term{op: "bound", name: sanitize(name) + "%" + strconv.Itoa(TS.fresh["%b"]), sort: sort})
	t.bound = true
	return t
}

func BVLit(v *big.Int, w int) *Term {
	m := new(big.Int).Lsh(big.NewInt(1), uint(w))
	x := new(big.Int).Mod(v, m)
	return TS.mk(&Term{op: "bv", sort: BV(w), val: x})
}

func BVu(v uint64, w int) *Term { return BVLit(new(big.Int).SetUint64(v), w) }
func BVi(v int64, w int) *Term  { return BVLit(big.NewInt(v), w) }

func IntLit(v int64) *Term { return TS.mk(&Term{op: "int", sort: SInt, val: big.NewInt(v)}) }

func Bool(b bool) *Term {
	if b {
		return True
	}
	return False
}

// App applies an uninterpreted function (declared on first use).
func App(name string, ret string, args ...*Term) *Term {
	name = sanitize(name)
	if _, ok := TS.funs[name]; !ok {
		sig := funSig{ret: ret}
		for _, a := range args {
			sig.args = append(sig.args, a.sort)
		}
		TS.funs[name] = sig
	} else {
		sig := TS.funs[name]
		if sig.ret != ret || len(sig.args) != len(args) {
			panic(fmt.Sprintf("uninterpreted function %s used with inconsistent signature", name))
		}
		for i, a := range args {
			if sig.args[i] != a.sort {
				panic(fmt.Sprintf("uninterpreted function %s arg %d: %s vs %s", name, i, sig.args[i], a.sort))
			}
		}
	}
	return TS.mk(&Term{op: "app", name: name, args: args, sort: ret})
}

func (t *Term) isLit() bool  { return t.op == "bv" || t.op == "int" }
func (t *Term) isTrue() bool { return t == True }
func (t *Term) isFalse() bool {
	return t == False
}

func Not(a *Term) *Term {
	if a == True {
		return False
	}
	if a == False {
		return True
	}
	if a.op == "not" {
		return a.args[0]
	}
	return TS.mk(&Term{op: "not", args: []*Term{a}, sort: SBool})
}

func And(as ...*Term) *Term {
	var out []*Term
	seen := map[int]bool{}
	for _, a := range as {
		if a == nil || a == True {
			continue
		}
		if a == False {
			return False
		}
		if a.op == "and" {
			for _, b := range a.args {
				if !seen[b.id] {
					seen[b.id] = true
					out = append(out, b)
				}
			}
			continue
		}
		if !seen[a.id] {
			seen[a.id] = true
			out = append(out, a)
		}
	}
	for _, a := range out {
		if a.op == "not" && seen[a.args[0].id] {
			return False
		}
	}
	if len(out) == 0 {
		return True
	}
	if len(out) == 1 {
		return out[0]
	}
	return TS.mk(&Term{op: "and", args: out, sort: SBool})
}

func Or(as ...*Term) *Term {
	var out []*Term
	seen := map[int]bool{}
	for _, a := range as {
		if a == nil || a == False {
			continue
		}
		if a == True {
			return True
		}
		if a.op == "or" {
			for _, b := range a.args {
				if !seen[b.id] {
					seen[b.id] = true
					out = append(out, b)
				}
			}
			continue
		}
		if !seen[a.id] {
			seen[a.id] = true
			out = append(out, a)
		}
	}
	for _, a := range out {
		if a.op == "not" && seen[a.args[0].id] {
			return True
		}
	}
	if len(out) == 0 {
		return False
	}
	if len(out) == 1 {
		return out[0]
	}
	return TS.mk(&Term{op: "or", args: out, sort: SBool})
}

func Implies(a, b *Term) *Term {
	if a == True {
		return b
	}
	if a == False || b == True {
		return True
	}
	if b == False {
		return Not(a)
	}
	return TS.mk(&Term{op: "=>", args: []*Term{a, b}, sort: SBool})
}

func Ite(c, a, b *Term) *Term {
	if c == True {
		return a
	}
	if c == False {
		return b
	}
	if a == b {
		return a
	}
	if a.sort != b.sort {
		panic(fmt.Sprintf("ite sort mismatch %s vs %s", a.sort, b.sort))
	}
	if a.sort == SBool {
		if a == True && b == False {
			return c
		}
		if a == False && b == True {
			return Not(c)
		}
		if a == True {
			return Or(c, b)
		}
		if b == False {
			return And(c, a)
		}
		if a == False {
			return And(Not(c), b)
		}
		if b == True {
			return Or(Not(c), a)
		}
	}
	return TS.mk(&Term{op: "ite", args: []*Term{c, a, b}, sort: a.sort})
}

func Eq(a, b *Term) *Term {
	if a == b {
		return True
	}
	if a.sort != b.sort {
		panic(fmt.Sprintf("eq sort mismatch %s vs %s (%s, %s)", a.sort, b.sort, a.String(), b.String()))
	}
	if a.isLit() && b.isLit() {
		return Bool(a.val.Cmp(b.val) == 0)
	}
	if a.sort == SBool {
		if a == True {
			return b
		}
		if b == True {
			return a
		}
		if a == False {
			return Not(b)
		}
		if b == False {
			return Not(a)
		}
	}
	if a.id > b.id {
		a, b = b, a
	}
	return TS.mk(&Term{op: "=", args: []*Term{a, b}, sort: SBool})
}

func Neq(a, b *Term) *Term { return Not(Eq(a, b)) }

func Select(arr, idx *Term) *Term {
	is, es := arrParts(arr.sort)
	if is != idx.sort {
		panic(fmt.Sprintf("select index sort %s vs %s", is, idx.sort))
	}
	// select(store(a,i,v), i) = v ; skip over stores at provably different literal indices
	cur := arr
	for cur.op == "store" {
		if cur.args[1] == idx {
			return cur.args[2]
		}
		if cur.args[1].isLit() && idx.isLit() {
			cur = cur.args[0]
			continue
		}
		break
	}
	if cur.op == "constarr" {
		return cur.args[0]
	}
	if cur.op == "ite" {
		// push the select through a merge of arrays
		return Ite(cur.args[0], Select(cur.args[1], idx), Select(cur.args[2], idx))
	}
	return TS.mk(&Term{op: "select", args: []*Term{cur, idx}, sort: es})
}

func Store(arr, idx, v *Term) *Term {
	is, es := arrParts(arr.sort)
	if is != idx.sort || es != v.sort {
		panic(fmt.Sprintf("store sort mismatch: %s [%s] := %s", arr.sort, idx.sort, v.sort))
	}
	if arr.op == "store" && arr.args[1] == idx {
		arr = arr.args[0]
	}
	if v.op == "select" && v.args[0] == arr && v.args[1] == idx {
		return arr // storing back the value that is already there
	}
	return TS.mk(&Term{op: "store", args: []*Term{arr, idx, v}, sort: arr.sort})
}

func ConstArr(sort string, v *Term) *Term {
	return TS.mk(&Term{op: "constarr", args: []*Term{v}, sort: sort})
}

func mask(w int) *big.Int {
	m := new(big.Int).Lsh(big.NewInt(1), uint(w))
	return m.Sub(m, big.NewInt(1))
}

func toSigned(v *big.Int, w int) *big.Int {
	if v.Bit(w-1) == 1 {
		return new(big.Int).Sub(v, new(big.Int).Lsh(big.NewInt(1), uint(w)))
	}
	return new(big.Int).Set(v)
}

// BVOp builds a binary bit-vector operation with constant folding.
func BVOp(op string, a, b *Term) *Term {
	if a.sort != b.sort {
		panic(fmt.Sprintf("bvop %s sort mismatch %s vs %s", op, a.sort, b.sort))
	}
	w := bvWidth(a.sort)
	switch op {
	case "bvadd":
		return linCombine(a, big.NewInt(1), b, big.NewInt(1), w)
	case "bvsub":
		return linCombine(a, big.NewInt(1), b, big.NewInt(-1), w)
	case "bvmul":
		if b.isLit() {
			return linCombine(a, b.val, nil, nil, w)
		}
		if a.isLit() {
			return linCombine(b, a.val, nil, nil, w)
		}
	case "bvshl":
		if b.isLit() && b.val.Cmp(big.NewInt(int64(w))) < 0 && !a.isLit() {
			return linCombine(a, new(big.Int).Lsh(big.NewInt(1), uint(b.val.Uint64())), nil, nil, w)
		}
	}
	if a.isLit() && b.isLit() {
		x, y := a.val, b.val
		r := new(big.Int)
		ok := true
		switch op {
		case "bvadd":
			r.Add(x, y)
		case "bvsub":
			r.Sub(x, y)
		case "bvmul":
			r.Mul(x, y)
		case "bvand":
			r.And(x, y)
		case "bvor":
			r.Or(x, y)
		case "bvxor":
			r.Xor(x, y)
		case "bvshl":
			if y.Cmp(big.NewInt(int64(w))) >= 0 {
				r.SetInt64(0)
			} else {
				r.Lsh(x, uint(y.Uint64()))
			}
		case "bvlshr":
			if y.Cmp(big.NewInt(int64(w))) >= 0 {
				r.SetInt64(0)
			} else {
				r.Rsh(x, uint(y.Uint64()))
			}
		case "bvudiv":
			if y.Sign() == 0 {
				ok = false
			} else {
				r.Div(x, y)
			}
		case "bvurem":
			if y.Sign() == 0 {
				ok = false
			} else {
				r.Mod(x, y)
			}
		default:
			ok = false
		}
		if ok {
			return BVLit(r, w)
		}
	}
	switch op {
	case "bvadd":
		if a.isLit() && a.val.Sign() == 0 {
			return b
		}
		if b.isLit() && b.val.Sign() == 0 {
			return a
		}
		// a + (b - a) = b ; (b - a) + a = b
		if b.op == "bvsub" && b.args[1] == a {
			return b.args[0]
		}
		if a.op == "bvsub" && a.args[1] == b {
			return a.args[0]
		}
		// (x + y) + (j - (x + y)) handled above; (x + (y + (j - (x+y)))) is not normalised
		// (x + c1) + c2
		if b.isLit() && a.op == "bvadd" && a.args[1].isLit() {
			return BVOp("bvadd", a.args[0], BVOp("bvadd", a.args[1], b))
		}
		if a.isLit() && !b.isLit() {
			a, b = b, a
		}
	case "bvsub":
		if b.isLit() && b.val.Sign() == 0 {
			return a
		}
		if a == b {
			return BVu(0, w)
		}
		if b.isLit() {
			return BVOp("bvadd", a, BVLit(new(big.Int).Neg(b.val), w))
		}
		// (a + b) - a = b ; (a + b) - b = a
		if a.op == "bvadd" && a.args[0] == b {
			return a.args[1]
		}
		if a.op == "bvadd" && a.args[1] == b {
			return a.args[0]
		}
	case "bvmul":
		if b.isLit() && b.val.Cmp(big.NewInt(1)) == 0 {
			return a
		}
		if a.isLit() && a.val.Cmp(big.NewInt(1)) == 0 {
			return b
		}
	case "bvand":
		if a == b {
			return a
		}
	case "bvor":
		if a == b {
			return a
		}
		if b.isLit() && b.val.Sign() == 0 {
			return a
		}
		if a.isLit() && a.val.Sign() == 0 {
			return b
		}
	case "bvshl", "bvlshr", "bvashr":
		if b.isLit() && b.val.Sign() == 0 {
			return a
		}
	}
	return TS.mk(&Term{op: op, args: []*Term{a, b}, sort: a.sort})
}

// BVCmp builds a comparison (bvult, bvule, bvslt, bvsle, ...).
func BVCmp(op string, a, b *Term) *Term {
	if a.sort != b.sort {
		panic(fmt.Sprintf("bvcmp %s sort mismatch %s vs %s", op, a.sort, b.sort))
	}
	w := bvWidth(a.sort)
	if a.isLit() && b.isLit() {
		x, y := a.val, b.val
		switch op {
		case "bvult":
			return Bool(x.Cmp(y) < 0)
		case "bvule":
			return Bool(x.Cmp(y) <= 0)
		case "bvugt":
			return Bool(x.Cmp(y) > 0)
		case "bvuge":
			return Bool(x.Cmp(y) >= 0)
		case "bvslt":
			return Bool(toSigned(x, w).Cmp(toSigned(y, w)) < 0)
		case "bvsle":
			return Bool(toSigned(x, w).Cmp(toSigned(y, w)) <= 0)
		case "bvsgt":
			return Bool(toSigned(x, w).Cmp(toSigned(y, w)) > 0)
		case "bvsge":
			return Bool(toSigned(x, w).Cmp(toSigned(y, w)) >= 0)
		}
	}
	if a == b {
		switch op {
		case "bvule", "bvuge", "bvsle", "bvsge":
			return True
		default:
			return False
		}
	}
	return TS.mk(&Term{op: op, args: []*Term{a, b}, sort: SBool})
}

func BVNeg(a *Term) *Term {
	w := bvWidth(a.sort)
	if a.isLit() {
		return BVLit(new(big.Int).Neg(a.val), w)
	}
	return linCombine(a, big.NewInt(-1), nil, nil, w)
}

// linear normal form over the ring of w-bit vectors: sum of coefficient*atom plus a constant.
type linForm struct {
	atoms map[int]*Term
	coef  map[int]*big.Int
	k     *big.Int
}

func linOf(t *Term, scale *big.Int, w int, into *linForm) {
	m := new(big.Int).Lsh(big.NewInt(1), uint(w))
	add := func(a *Term, c *big.Int) {
		cc := new(big.Int).Mul(c, scale)
		cc.Mod(cc, m)
		if old, ok := into.coef[a.id]; ok {
			cc.Add(cc, old)
			cc.Mod(cc, m)
		}
		into.atoms[a.id] = a
		into.coef[a.id] = cc
	}
	switch {
	case t.isLit():
		v := new(big.Int).Mul(t.val, scale)
		into.k.Add(into.k, v)
		into.k.Mod(into.k, m)
	case t.op == "lin":
		for i, a := range t.args {
			add(a, t.coef[i])
		}
		v := new(big.Int).Mul(t.val, scale)
		into.k.Add(into.k, v)
		into.k.Mod(into.k, m)
	default:
		add(t, big.NewInt(1))
	}
}

func linCombine(a *Term, ca *big.Int, b *Term, cb *big.Int, w int) *Term {
	lf := &linForm{atoms: map[int]*Term{}, coef: map[int]*big.Int{}, k: new(big.Int)}
	linOf(a, ca, w, lf)
	if b != nil {
		linOf(b, cb, w, lf)
	}
	return lf.build(w)
}

func (lf *linForm) build(w int) *Term {
	var ids []int
	for id, c := range lf.coef {
		if c.Sign() != 0 {
			ids = append(ids, id)
		}
	}
	sort.Ints(ids)
	if len(ids) == 0 {
		return BVLit(lf.k, w)
	}
	if len(ids) == 1 && lf.k.Sign() == 0 && lf.coef[ids[0]].Cmp(big.NewInt(1)) == 0 {
		return lf.atoms[ids[0]]
	}
	t := &Term{op: "lin", sort: BV(w), val: new(big.Int).Set(lf.k)}
	for _, id := range ids {
		t.args = append(t.args, lf.atoms[id])
		t.coef = append(t.coef, lf.coef[id])
	}
	return TS.mk(t)
}

// linMinus returns t - atom when atom occurs in t with coefficient 1 (ok=false otherwise).
func linMinus(t, atom *Term) (*Term, bool) {
	w := bvWidth(t.sort)
	if t == atom {
		return BVu(0, w), true
	}
	if t.op != "lin" {
		return nil, false
	}
	for i, a := range t.args {
		if a == atom {
			if t.coef[i].Cmp(big.NewInt(1)) != 0 {
				return nil, false
			}
			return linCombine(t, big.NewInt(1), atom, big.NewInt(-1), w), true
		}
	}
	return nil, false
}

func BVNot(a *Term) *Term {
	w := bvWidth(a.sort)
	if a.isLit() {
		return BVLit(new(big.Int).Xor(a.val, mask(w)), w)
	}
	return TS.mk(&Term{op: "bvnot", args: []*Term{a}, sort: a.sort})
}

// Resize converts a bit-vector to width w (zero- or sign-extending, or truncating).
func Resize(a *Term, w int, signed bool) *Term {
	aw := bvWidth(a.sort)
	if aw == w {
		return a
	}
	if a.isLit() {
		if signed {
			return BVLit(toSigned(a.val, aw), w)
		}
		return BVLit(a.val, w)
	}
	if w < aw {
		return TS.mk(&Term{op: "extract", name: fmt.Sprintf("%d 0", w-1), args: []*Term{a}, sort: BV(w)})
	}
	op := "zero_extend"
	if signed {
		op = "sign_extend"
	}
	return TS.mk(&Term{op: op, name: strconv.Itoa(w - aw), args: []*Term{a}, sort: BV(w)})
}

func IntOp(op string, a, b *Term) *Term {
	if a.isLit() && b.isLit() {
		switch op {
		case "+":
			return IntLit(new(big.Int).Add(a.val, b.val).Int64())
		case "<":
			return Bool(a.val.Cmp(b.val) < 0)
		case "<=":
			return Bool(a.val.Cmp(b.val) <= 0)
		}
	}
	s := SInt
	if op == "<" || op == "<=" || op == ">" || op == ">=" {
		s = SBool
	}
	return TS.mk(&Term{op: op, args: []*Term{a, b}, sort: s})
}

func Forall(vars []*Term, body *Term, pats ...*Term) *Term {
	if body == True {
		return True
	}
	t := &Term{op: "forall", args: []*Term{body}, sort: SBool, qvars: vars, pats: pats}
	r := TS.mk(t)
	r.bound = closedOver(r)
	return r
}

func Exists(vars []*Term, body *Term) *Term {
	if body == False {
		return False
	}
	t := &Term{op: "exists", args: []*Term{body}, sort: SBool, qvars: vars}
	r := TS.mk(t)
	r.bound = closedOver(r)
	return r
}

// closedOver reports whether the quantified term still has free bound variables
// (bound by an enclosing quantifier).
func closedOver(q *Term) bool {
	bound := map[int]bool{}
	for _, v := range q.qvars {
		bound[v.id] = true
	}
	free := false
	seen := map[int]bool{}
	var walk func(t *Term, env map[int]bool)
	walk = func(t *Term, env map[int]bool) {
		if free || !t.bound {
			return
		}
		if t.op == "bound" {
			if !env[t.id] {
				free = true
			}
			return
		}
		if t.op == "forall" || t.op == "exists" {
			e2 := map[int]bool{}
			for k := range env {
				e2[k] = true
			}
			for _, v := range t.qvars {
				e2[v.id] = true
			}
			for _, a := range t.args {
				walk(a, e2)
			}
			return
		}
		if seen[t.id] {
			return
		}
		seen[t.id] = true
		for _, a := range t.args {
			walk(a, env)
		}
	}
	walk(q.args[0], bound)
	return free
}

// Subst replaces variables/bound variables (by id) throughout t.
func Subst(t *Term, m map[int]*Term) *Term {
	cache := map[int]*Term{}
	var rec func(t *Term) *Term
	rec = func(t *Term) *Term {
		if r, ok := m[t.id]; ok {
			return r
		}
		if len(t.args) == 0 {
			return t
		}
		if r, ok := cache[t.id]; ok {
			return r
		}
		na := make([]*Term, len(t.args))
		ch := false
		for i, a := range t.args {
			na[i] = rec(a)
			if na[i] != a {
				ch = true
			}
		}
		var np []*Term
		for _, p := range t.pats {
			q := rec(p)
			if q != p {
				ch = true
			}
			np = append(np, q)
		}
		r := t
		if ch {
			r = rebuild(t, na, np)
		}
		cache[t.id] = r
		return r
	}
	return rec(t)
}

func rebuild(t *Term, na []*Term, np []*Term) *Term {
	switch t.op {
	case "not":
		return Not(na[0])
	case "and":
		return And(na...)
	case "or":
		return Or(na...)
	case "=>":
		return Implies(na[0], na[1])
	case "ite":
		return Ite(na[0], na[1], na[2])
	case "=":
		return Eq(na[0], na[1])
	case "select":
		return Select(na[0], na[1])
	case "store":
		return Store(na[0], na[1], na[2])
	case "forall":
		return Forall(t.qvars, na[0], np...)
	case "exists":
		return Exists(t.qvars, na[0])
	case "bvadd", "bvsub", "bvmul", "bvand", "bvor", "bvxor", "bvshl", "bvlshr", "bvashr", "bvudiv", "bvurem", "bvsdiv", "bvsrem":
		return BVOp(t.op, na[0], na[1])
	case "bvult", "bvule", "bvugt", "bvuge", "bvslt", "bvsle", "bvsgt", "bvsge":
		return BVCmp(t.op, na[0], na[1])
	case "bvneg":
		return BVNeg(na[0])
	case "bvnot":
		return BVNot(na[0])
	case "lin":
		w := bvWidth(t.sort)
		lf := &linForm{atoms: map[int]*Term{}, coef: map[int]*big.Int{}, k: new(big.Int).Set(t.val)}
		for i, a := range na {
			linOf(a, t.coef[i], w, lf)
		}
		return lf.build(w)
	}
	nt := &Term{op: t.op, name: t.name, args: na, sort: t.sort, val: t.val, qvars: t.qvars, pats: np}
	r := TS.mk(nt)
	if len(t.facts) > 0 && len(r.facts) == 0 {
		// facts are tied to the term's identity; re-derive is the caller's business
	}
	return r
}

func (t *Term) AddFact(f *Term) {
	for _, g := range t.facts {
		if g == f {
			return
		}
	}
	t.facts = append(t.facts, f)
}

// ---------------------------------------------------------------- printing

func (t *Term) String() string {
	var sb strings.Builder
	printTerm(&sb, t, nil)
	return sb.String()
}

func sortDecl(s string) string { return s }

func printTerm(sb *strings.Builder, t *Term, named map[int]string) {
	if named != nil {
		if n, ok := named[t.id]; ok {
			sb.WriteString(n)
			return
		}
	}
	switch t.op {
	case "true", "false":
		sb.WriteString(t.op)
	case "var", "bound":
		sb.WriteString(t.name)
	case "bv":
		fmt.Fprintf(sb, "(_ bv%s %d)", t.val.String(), bvWidth(t.sort))
	case "int":
		if t.val.Sign() < 0 {
			fmt.Fprintf(sb, "(- %s)", new(big.Int).Neg(t.val).String())
		} else {
			sb.WriteString(t.val.String())
		}
	case "app":
		if len(t.args) == 0 {
			sb.WriteString(t.name)
			return
		}
		sb.WriteString("(" + t.name)
		for _, a := range t.args {
			sb.WriteByte(' ')
			printTerm(sb, a, named)
		}
		sb.WriteByte(')')
	case "extract":
		sb.WriteString("((_ extract " + t.name + ") ")
		printTerm(sb, t.args[0], named)
		sb.WriteByte(')')
	case "zero_extend", "sign_extend":
		sb.WriteString("((_ " + t.op + " " + t.name + ") ")
		printTerm(sb, t.args[0], named)
		sb.WriteByte(')')
	case "lin":
		w := bvWidth(t.sort)
		m := new(big.Int).Lsh(big.NewInt(1), uint(w))
		half := new(big.Int).Rsh(m, 1)
		// positive part first, negative coefficients as bvsub
		var pos, neg []int
		for i, c := range t.coef {
			if c.Cmp(half) >= 0 {
				neg = append(neg, i)
			} else {
				pos = append(pos, i)
			}
		}
		printAtom := func(i int, c *big.Int) {
			if c.Cmp(big.NewInt(1)) == 0 {
				printTerm(sb, t.args[i], named)
				return
			}
			fmt.Fprintf(sb, "(bvmul (_ bv%s %d) ", c.String(), w)
			printTerm(sb, t.args[i], named)
			sb.WriteByte(')')
		}
		// build nested expression: ((p0 + p1 + ... + k) - n0 - n1 ...)
		open := 0
		for range neg {
			sb.WriteString("(bvsub ")
			open++
		}
		nplus := len(pos)
		if t.val.Sign() != 0 || nplus == 0 {
			nplus++
		}
		for i := 0; i < nplus-1; i++ {
			sb.WriteString("(bvadd ")
		}
		first := true
		for _, i := range pos {
			if !first {
				sb.WriteByte(' ')
			}
			printAtom(i, t.coef[i])
			if !first {
				sb.WriteByte(')')
			}
			first = false
		}
		if t.val.Sign() != 0 || len(pos) == 0 {
			if !first {
				sb.WriteByte(' ')
			}
			fmt.Fprintf(sb, "(_ bv%s %d)", t.val.String(), w)
			if !first {
				sb.WriteByte(')')
			}
		}
		for _, i := range neg {
			sb.WriteByte(' ')
			printAtom(i, new(big.Int).Sub(m, t.coef[i]))
			sb.WriteByte(')')
		}
		_ = open
	case "constarr":
		sb.WriteString("((as const " + t.sort + ") ")
		printTerm(sb, t.args[0], named)
		sb.WriteByte(')')
	case "forall", "exists":
		sb.WriteString("(" + t.op + " (")
		for _, v := range t.qvars {
			sb.WriteString("(" + v.name + " " + v.sort + ")")
		}
		sb.WriteString(") ")
		if len(t.pats) > 0 {
			sb.WriteString("(! ")
		}
		printTerm(sb, t.args[0], named)
		if len(t.pats) > 0 {
			for _, p := range t.pats {
				sb.WriteString(" :pattern (")
				printTerm(sb, p, named)
				sb.WriteString(")")
			}
			sb.WriteString(")")
		}
		sb.WriteByte(')')
	default:
		sb.WriteString("(" + t.op)
		for _, a := range t.args {
			sb.WriteByte(' ')
			printTerm(sb, a, named)
		}
		sb.WriteByte(')')
	}
}

// Script renders a satisfiability query: all asserts conjoined. Facts attached to any
// reachable term are asserted too (transitively).
func Script(asserts []*Term, opts ScriptOpts) string {
	return scriptImpl(asserts, opts, nil)
}

// ScriptObs renders the query with named observables and a get-value command.
func ScriptObs(asserts []*Term, obs []observable) string {
	return scriptImpl(asserts, ScriptOpts{}, obs)
}

func scriptImpl(asserts []*Term, opts ScriptOpts, obs []observable) string {
	// phase 1: collect reachable terms, including through facts (facts become roots)
	var all []*Term
	seen := map[int]bool{}
	var roots []*Term
	isRoot := map[int]bool{}
	var collect func(t *Term)
	collect = func(t *Term) {
		if seen[t.id] {
			return
		}
		seen[t.id] = true
		all = append(all, t)
		for _, a := range t.args {
			collect(a)
		}
		for _, p := range t.pats {
			collect(p)
		}
		for _, f := range t.facts {
			if !isRoot[f.id] {
				isRoot[f.id] = true
				roots = append(roots, f)
			}
			collect(f)
		}
	}
	for _, a := range asserts {
		if !isRoot[a.id] {
			isRoot[a.id] = true
			roots = append(roots, a)
		}
		collect(a)
	}
	for _, o := range obs {
		collect(o.t)
	}
	// phase 2: reference counts and a topological order over args/pats only
	refs := map[int]int{}
	for _, t := range all {
		for _, a := range t.args {
			refs[a.id]++
		}
		for _, p := range t.pats {
			refs[p.id]++
		}
	}
	for _, r := range roots {
		refs[r.id]++
	}
	for _, o := range obs {
		refs[o.t.id]++
	}
	var order []*Term
	done := map[int]bool{}
	var topo func(t *Term)
	topo = func(t *Term) {
		if done[t.id] {
			return
		}
		done[t.id] = true
		for _, a := range t.args {
			topo(a)
		}
		for _, p := range t.pats {
			topo(p)
		}
		order = append(order, t)
	}
	for _, t := range all {
		topo(t)
	}
	var sb strings.Builder
	if opts.Cvc5 {
		sb.WriteString("(set-option :produce-models true)\n")
	}
	sb.WriteString("(set-logic ALL)\n")
	if !opts.Cvc5 {
		sb.WriteString("(set-option :produce-models true)\n")
	}
	sb.WriteString("(declare-sort Ref 0)\n(declare-sort Float 0)\n")
	// declarations
	var vars []*Term
	funs := map[string]bool{}
	for _, t := range order {
		if t.op == "var" {
			vars = append(vars, t)
		}
		if t.op == "app" {
			funs[t.name] = true
		}
	}
	sort.Slice(vars, func(i, j int) bool { return vars[i].name < vars[j].name })
	for _, v := range vars {
		fmt.Fprintf(&sb, "(declare-fun %s () %s)\n", v.name, v.sort)
	}
	var fn []string
	for f := range funs {
		fn = append(fn, f)
	}
	sort.Strings(fn)
	for _, f := range fn {
		sig := TS.funs[f]
		fmt.Fprintf(&sb, "(declare-fun %s (%s) %s)\n", f, strings.Join(sig.args, " "), sig.ret)
	}
	// shared sub-terms
	named := map[int]string{}
	for _, t := range order {
		if t.bound || len(t.args) == 0 {
			continue
		}
		if refs[t.id] > 1 {
			var b strings.Builder
			printTerm(&b, t, named)
			n := "t" + strconv.Itoa(t.id)
			if b.Len() > 20000000 {
				os.WriteFile("/tmp/big.smt2", []byte(sb.String()+"\n;;;; BIG "+n+"\n"+b.String()[:3000000]), 0o644)
				cnt := map[int]int{}
				var walk func(x *Term, d int)
				steps := 0
				walk = func(x *Term, d int) {
					if steps > 2000000 {
						return
					}
					steps++
					if _, ok := named[x.id]; ok {
						return
					}
					cnt[x.id]++
					for _, a := range x.args {
						walk(a, d+1)
					}
				}
				walk(t, 0)
				byID := map[int]*Term{}
				for _, x := range order {
					byID[x.id] = x
				}
				nrep := 0
				for id, c := range cnt {
					if c > 3 && len(byID[id].args) > 0 && nrep < 15 {
						x := byID[id]
						pos := -1
						for i, y := range order {
							if y == x {
								pos = i
							}
						}
						tpos := -1
						for i, y := range order {
							if y == t {
								tpos = i
							}
						}
						fmt.Fprintf(os.Stderr, "  repeated unnamed t%d op=%s nargs=%d occurrences>=%d refs=%d bound=%v orderpos=%d (parent at %d)\n", id, x.op, len(x.args), c, refs[id], x.bound, pos, tpos)
						nrep++
					}
				}
				panic("script too large")
			}
			fmt.Fprintf(&sb, "(define-fun %s () %s %s)\n", n, t.sort, b.String())
			named[t.id] = n
		}
	}
	emitted := map[int]bool{}
	for _, r := range roots {
		if emitted[r.id] || r == True {
			continue
		}
		emitted[r.id] = true
		var b strings.Builder
		printTerm(&b, r, named)
		fmt.Fprintf(&sb, "(assert %s)\n", b.String())
	}
	for _, o := range obs {
		var b strings.Builder
		printTerm(&b, o.t, named)
		fmt.Fprintf(&sb, "(define-fun %s () %s %s)\n", o.name, o.t.sort, b.String())
	}
	sb.WriteString("(check-sat)\n")
	if opts.Model {
		sb.WriteString("(get-model)\n")
	}
	if len(obs) > 0 {
		sb.WriteString("(get-value (")
		for _, o := range obs {
			sb.WriteString(o.name + " ")
		}
		sb.WriteString("))\n")
	}
	return sb.String()
}

type ScriptOpts struct {
	Cvc5  bool
	Model bool
}

// treeSize computes the printed size of a term when only refs>1 non-bound terms are shared
// (debugging aid for blow-ups).
func treeSizeDebug(root *Term) {
	memo := map[int]float64{}
	var size func(t *Term) float64
	size = func(t *Term) float64 {
		if v, ok := memo[t.id]; ok {
			return v
		}
		s := 1.0
		for _, a := range t.args {
			s += size(a)
		}
		memo[t.id] = s
		return s
	}
	total := size(root)
	fmt.Fprintf(os.Stderr, "tree size %.3g, dag size %d\n", total, len(memo))
	// walk down the heaviest path among bound terms
	cur := root
	for depth := 0; depth < 60 && len(cur.args) > 0; depth++ {
		var best *Term
		for _, a := range cur.args {
			if best == nil || memo[a.id] > memo[best.id] {
				best = a
			}
		}
		fmt.Fprintf(os.Stderr, "  %s(%d args, bound=%v) size %.3g\n", cur.op+cur.name, len(cur.args), cur.bound, memo[cur.id])
		cur = best
	}
}

// printSizeDebug reports which shared definitions have the largest inline size.
func printSizeDebug(asserts []*Term) {
	refs := map[int]int{}
	seen := map[int]bool{}
	var order []*Term
	var visit func(t *Term)
	visit = func(t *Term) {
		refs[t.id]++
		if seen[t.id] {
			return
		}
		seen[t.id] = true
		for _, a := range t.args {
			visit(a)
		}
		for _, p := range t.pats {
			visit(p)
		}
		order = append(order, t)
		for _, f := range t.facts {
			visit(f)
		}
	}
	for _, a := range asserts {
		visit(a)
	}
	isNamed := func(t *Term) bool {
		return !(t.bound || len(t.args) == 0 || t.op == "forall" || t.op == "exists") && refs[t.id] > 1
	}
	memo := map[int]float64{}
	var inl func(t *Term, top bool) float64
	inl = func(t *Term, top bool) float64 {
		if !top && isNamed(t) {
			return 1
		}
		if v, ok := memo[t.id]; ok {
			return v
		}
		s := 1.0
		for _, a := range t.args {
			s += inl(a, false)
		}
		memo[t.id] = s
		return s
	}
	type kv struct {
		t *Term
		s float64
	}
	var big []kv
	total := 0.0
	for _, t := range order {
		if isNamed(t) {
			s := inl(t, true)
			total += s
			if s > 1e5 {
				big = append(big, kv{t, s})
			}
		}
	}
	fmt.Fprintf(os.Stderr, "total inline size of definitions %.3g; %d terms\n", total, len(order))
	for i, b := range big {
		if i > 5 {
			break
		}
		fmt.Fprintf(os.Stderr, "  def t%d op=%s size %.3g bound=%v\n", b.t.id, b.t.op, b.s, b.t.bound)
		cur := b.t
		for d := 0; d < 30 && len(cur.args) > 0; d++ {
			var best *Term
			for _, a := range cur.args {
				if isNamed(a) {
					continue
				}
				if best == nil || memo[a.id] > memo[best.id] {
					best = a
				}
			}
			if best == nil {
				break
			}
			fmt.Fprintf(os.Stderr, "     %s%s args=%d refs=%d bound=%v size=%.3g\n", best.op, best.name, len(best.args), refs[best.id], best.bound, memo[best.id])
			cur = best
		}
	}
	for _, a := range asserts {
		fmt.Fprintf(os.Stderr, "  assert inline size %.3g\n", inl(a, true))
	}
}

// hasQuant reports whether t contains a quantifier.
func hasQuant(t *Term, memo map[int]bool) bool {
	if v, ok := memo[t.id]; ok {
		return v
	}
	r := t.op == "forall" || t.op == "exists"
	if !r {
		for _, a := range t.args {
			if hasQuant(a, memo) {
				r = true
				break
			}
		}
	}
	memo[t.id] = r
	return r
}

// weakenQuant replaces quantified sub-formulas of a hypothesis by true (positive positions) or
// false (negative positions): the result is implied by t, so a refutation that uses it is sound.
func weakenQuant(t *Term) *Term {
	memo := map[int]bool{}
	cache := map[[2]int]*Term{}
	var rec func(t *Term, pos bool) *Term
	rec = func(t *Term, pos bool) *Term {
		if t.sort != SBool || !hasQuant(t, memo) {
			return t
		}
		key := [2]int{t.id, 0}
		if pos {
			key[1] = 1
		}
		if r, ok := cache[key]; ok {
			return r
		}
		var r *Term
		switch t.op {
		case "forall", "exists":
			r = Bool(pos)
		case "and":
			as := make([]*Term, len(t.args))
			for i, a := range t.args {
				as[i] = rec(a, pos)
			}
			r = And(as...)
		case "or":
			as := make([]*Term, len(t.args))
			for i, a := range t.args {
				as[i] = rec(a, pos)
			}
			r = Or(as...)
		case "not":
			r = Not(rec(t.args[0], !pos))
		case "=>":
			r = Implies(rec(t.args[0], !pos), rec(t.args[1], pos))
		case "ite":
			if hasQuant(t.args[0], memo) {
				r = Bool(pos)
			} else {
				r = Ite(t.args[0], rec(t.args[1], pos), rec(t.args[2], pos))
			}
		default:
			// iff and anything else: cannot weaken through, drop the whole formula
			r = Bool(pos)
		}
		cache[key] = r
		return r
	}
	return rec(t, true)
}

// selectIndices collects the ground 64-bit index terms used in array reads of t.
func selectIndices(t *Term, out map[int]*Term, seen map[int]bool) {
	if seen[t.id] {
		return
	}
	seen[t.id] = true
	if t.op == "select" && !t.args[1].bound && t.args[1].sort == BV(64) {
		out[t.args[1].id] = t.args[1]
	}
	for _, a := range t.args {
		selectIndices(a, out, seen)
	}
}

// instantiateQuant replaces each positively occurring single-variable universal hypothesis by the
// conjunction of its instances at the given index terms (other quantifiers are weakened away as
// in weakenQuant). The result is implied by t.
func instantiateQuant(t *Term, idx []*Term) *Term {
	memo := map[int]bool{}
	cache := map[[2]int]*Term{}
	var rec func(t *Term, pos bool) *Term
	rec = func(t *Term, pos bool) *Term {
		if t.sort != SBool || !hasQuant(t, memo) {
			return t
		}
		key := [2]int{t.id, 0}
		if pos {
			key[1] = 1
		}
		if r, ok := cache[key]; ok {
			return r
		}
		var r *Term
		switch t.op {
		case "forall":
			if pos && len(t.qvars) == 1 && t.qvars[0].sort == BV(64) && !hasQuant(t.args[0], memo) {
				var insts []*Term
				for _, x := range idx {
					insts = append(insts, Subst(t.args[0], map[int]*Term{t.qvars[0].id: x}))
				}
				r = And(insts...)
			} else {
				r = Bool(pos)
			}
		case "exists":
			if !pos && len(t.qvars) == 1 && t.qvars[0].sort == BV(64) && !hasQuant(t.args[0], memo) {
				// a negated existential is a universal: any witness among the index terms will do
				var insts []*Term
				for _, x := range idx {
					insts = append(insts, Subst(t.args[0], map[int]*Term{t.qvars[0].id: x}))
				}
				r = Or(insts...)
			} else {
				r = Bool(pos)
			}
		case "and":
			as := make([]*Term, len(t.args))
			for i, a := range t.args {
				as[i] = rec(a, pos)
			}
			r = And(as...)
		case "or":
			as := make([]*Term, len(t.args))
			for i, a := range t.args {
				as[i] = rec(a, pos)
			}
			r = Or(as...)
		case "not":
			r = Not(rec(t.args[0], !pos))
		case "=>":
			r = Implies(rec(t.args[0], !pos), rec(t.args[1], pos))
		case "ite":
			if hasQuant(t.args[0], memo) {
				r = Bool(pos)
			} else {
				r = Ite(t.args[0], rec(t.args[1], pos), rec(t.args[2], pos))
			}
		default:
			r = Bool(pos)
		}
		cache[key] = r
		return r
	}
	return rec(t, true)
}

// groundInstances: two rounds of instantiation of the quantified hypotheses in pc at the array
// indices occurring in pc and the goals.
func groundInstances(pc *Term, goals []*Term) *Term {
	m := map[int]bool{}
	if !hasQuant(pc, m) {
		return pc
	}
	idx := map[int]*Term{}
	seen := map[int]bool{}
	weak := weakenQuant(pc)
	selectIndices(weak, idx, seen)
	for _, g := range goals {
		selectIndices(g, idx, seen)
	}
	list := func() []*Term {
		var ids []int
		for id := range idx {
			ids = append(ids, id)
		}
		sort.Ints(ids)
		var out []*Term
		for _, id := range ids {
			out = append(out, idx[id])
		}
		return out
	}
	if len(idx) == 0 || len(idx) > 120 {
		return weak
	}
	res := instantiateQuant(pc, list())
	for round := 0; round < 4; round++ {
		n := len(idx)
		selectIndices(res, idx, map[int]bool{})
		if len(idx) == n || len(idx) > 120 {
			return res
		}
		res = instantiateQuant(pc, list())
	}
	return res
}
