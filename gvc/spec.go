package main

// Contract language: lexer, Pratt parser, contract files.

import (
	"fmt"
	"os"
	"path/filepath"
	"strings"
	"unicode"
)

type SExpr struct {
	Op   string // ident, num, str, char, binop symbol, "!", "neg", "^u", "call", "index", "slice", "sel", "old", "forall", "exists", "assert_type", "conv"
	Name string
	Args []*SExpr
	Vars []specVar // quantifier binders
	Pos  string
}

type specVar struct {
	Name string
	Type string
}

type stoken struct {
	kind string // ident num str char op eof
	text string
}

func lexSpec(s string) ([]stoken, error) {
	var out []stoken
	i := 0
	for i < len(s) {
		c := s[i]
		switch {
		case c == ' ' || c == '\t' || c == '\n':
			i++
		case unicode.IsLetter(rune(c)) || c == '_':
			j := i
			for j < len(s) && (unicode.IsLetter(rune(s[j])) || unicode.IsDigit(rune(s[j])) || s[j] == '_') {
				j++
			}
			out = append(out, stoken{"ident", s[i:j]})
			i = j
		case unicode.IsDigit(rune(c)):
			j := i
			for j < len(s) && (unicode.IsLetter(rune(s[j])) || unicode.IsDigit(rune(s[j])) || s[j] == '_') {
				j++
			}
			out = append(out, stoken{"num", strings.ReplaceAll(s[i:j], "_", "")})
			i = j
		case c == '"':
			j := i + 1
			for j < len(s) && s[j] != '"' {
				if s[j] == '\\' {
					j++
				}
				j++
			}
			if j >= len(s) {
				return nil, fmt.Errorf("unterminated string")
			}
			out = append(out, stoken{"str", s[i : j+1]})
			i = j + 1
		case c == '\'':
			j := i + 1
			for j < len(s) && s[j] != '\'' {
				if s[j] == '\\' {
					j++
				}
				j++
			}
			out = append(out, stoken{"char", s[i : j+1]})
			i = j + 1
		default:
			ops := []string{"<==>", "==>", "::", "&&", "||", "==", "!=", "<=", ">=", "<<", ">>", "&^", ".(", "+", "-", "*", "/", "%", "&", "|", "^", "<", ">", "!", "(", ")", "[", "]", ".", ",", ":", "{", "}"}
			found := false
			for _, o := range ops {
				if strings.HasPrefix(s[i:], o) {
					out = append(out, stoken{"op", o})
					i += len(o)
					found = true
					break
				}
			}
			if !found {
				return nil, fmt.Errorf("unexpected character %q", c)
			}
		}
	}
	out = append(out, stoken{"eof", ""})
	return out, nil
}

type specParser struct {
	toks []stoken
	p    int
	src  string
}

func parseSpec(src string) (e *SExpr, err error) {
	toks, err := lexSpec(src)
	if err != nil {
		return nil, fmt.Errorf("%v in %q", err, src)
	}
	p := &specParser{toks: toks, src: src}
	defer func() {
		if r := recover(); r != nil {
			err = fmt.Errorf("spec parse error: %v in %q", r, src)
		}
	}()
	e = p.expr()
	if p.peek().kind != "eof" {
		panic("trailing input at " + p.peek().text)
	}
	return e, nil
}

func (p *specParser) peek() stoken { return p.toks[p.p] }
func (p *specParser) next() stoken { t := p.toks[p.p]; p.p++; return t }
func (p *specParser) isOp(o string) bool {
	t := p.peek()
	return t.kind == "op" && t.text == o
}
func (p *specParser) expect(o string) {
	if !p.isOp(o) {
		panic(fmt.Sprintf("expected %q, found %q", o, p.peek().text))
	}
	p.next()
}

func (p *specParser) expr() *SExpr {
	t := p.peek()
	if t.kind == "ident" && (t.text == "forall" || t.text == "exists") {
		p.next()
		e := &SExpr{Op: t.text}
		for {
			n := p.next()
			if n.kind != "ident" {
				panic("binder name expected")
			}
			ty := p.typeStr()
			e.Vars = append(e.Vars, specVar{n.text, ty})
			if p.isOp(",") {
				p.next()
				continue
			}
			break
		}
		p.expect("::")
		e.Args = []*SExpr{p.expr()}
		return e
	}
	return p.iff()
}

func (p *specParser) iff() *SExpr {
	l := p.impl()
	for p.isOp("<==>") {
		p.next()
		r := p.impl()
		l = &SExpr{Op: "<==>", Args: []*SExpr{l, r}}
	}
	return l
}

func (p *specParser) impl() *SExpr {
	l := p.binary(0)
	if p.isOp("==>") {
		p.next()
		var r *SExpr
		t := p.peek()
		if t.kind == "ident" && (t.text == "forall" || t.text == "exists") {
			r = p.expr()
		} else {
			r = p.impl()
		}
		return &SExpr{Op: "==>", Args: []*SExpr{l, r}}
	}
	return l
}

var binPrec = map[string]int{
	"||": 1, "&&": 2,
	"==": 3, "!=": 3, "<": 3, "<=": 3, ">": 3, ">=": 3,
	"+": 4, "-": 4, "|": 4, "^": 4,
	"*": 5, "/": 5, "%": 5, "<<": 5, ">>": 5, "&": 5, "&^": 5,
}

func (p *specParser) binary(min int) *SExpr {
	l := p.unary()
	for {
		t := p.peek()
		if t.kind != "op" {
			return l
		}
		pr, ok := binPrec[t.text]
		if !ok || pr <= min {
			return l
		}
		p.next()
		var r *SExpr
		// allow a quantifier as the right operand of && / ||
		nt := p.peek()
		if nt.kind == "ident" && (nt.text == "forall" || nt.text == "exists") {
			r = p.expr()
		} else {
			r = p.binary(pr)
		}
		l = &SExpr{Op: t.text, Args: []*SExpr{l, r}}
	}
}

func (p *specParser) unary() *SExpr {
	t := p.peek()
	if t.kind == "op" {
		switch t.text {
		case "!":
			p.next()
			return &SExpr{Op: "!", Args: []*SExpr{p.unary()}}
		case "-":
			p.next()
			return &SExpr{Op: "neg", Args: []*SExpr{p.unary()}}
		case "^":
			p.next()
			return &SExpr{Op: "^u", Args: []*SExpr{p.unary()}}
		case "*":
			p.next()
			return &SExpr{Op: "deref", Args: []*SExpr{p.unary()}}
		}
	}
	return p.postfix()
}

// typeStr consumes a type: [*] [[]] ident {. ident} possibly with slashes in package paths
func (p *specParser) typeStr() string {
	var sb strings.Builder
	for {
		if p.isOp("*") {
			p.next()
			sb.WriteString("*")
			continue
		}
		if p.isOp("[") {
			p.next()
			if p.peek().kind == "num" {
				sb.WriteString("[" + p.next().text + "]")
				p.expect("]")
			} else {
				p.expect("]")
				sb.WriteString("[]")
			}
			continue
		}
		break
	}
	t := p.next()
	if t.kind != "ident" {
		panic("type name expected, found " + t.text)
	}
	if t.text == "map" && p.isOp("[") {
		p.next()
		k := p.typeStr()
		p.expect("]")
		v := p.typeStr()
		return sb.String() + "map[" + k + "]" + v
	}
	sb.WriteString(t.text)
	for p.isOp(".") || p.isOp("/") {
		sb.WriteString(p.next().text)
		n := p.next()
		sb.WriteString(n.text)
	}
	return sb.String()
}

func (p *specParser) postfix() *SExpr {
	e := p.primary()
	for {
		switch {
		case p.isOp("."):
			p.next()
			n := p.next()
			if n.kind != "ident" {
				panic("field name expected")
			}
			e = &SExpr{Op: "sel", Name: n.text, Args: []*SExpr{e}}
		case p.isOp(".("):
			p.next()
			ty := p.typeStr()
			p.expect(")")
			e = &SExpr{Op: "assert_type", Name: ty, Args: []*SExpr{e}}
		case p.isOp("["):
			p.next()
			var lo, hi *SExpr
			if !p.isOp(":") {
				lo = p.expr()
			}
			if p.isOp(":") {
				p.next()
				if !p.isOp("]") {
					hi = p.expr()
				}
				p.expect("]")
				e = &SExpr{Op: "slice", Args: []*SExpr{e, lo, hi}}
			} else {
				p.expect("]")
				e = &SExpr{Op: "index", Args: []*SExpr{e, lo}}
			}
		case p.isOp("("):
			p.next()
			call := &SExpr{Op: "call", Args: []*SExpr{e}}
			if e.Op == "ident" && e.Name == "istype" {
				call.Args = append(call.Args, p.expr())
				p.expect(",")
				call.Args = append(call.Args, &SExpr{Op: "type", Name: p.typeStr()})
			}
			for !p.isOp(")") {
				call.Args = append(call.Args, p.expr())
				if p.isOp(",") {
					p.next()
				}
			}
			p.expect(")")
			e = call
		default:
			return e
		}
	}
}

func (p *specParser) primary() *SExpr {
	t := p.next()
	switch t.kind {
	case "num":
		return &SExpr{Op: "num", Name: t.text}
	case "str":
		return &SExpr{Op: "str", Name: t.text}
	case "char":
		return &SExpr{Op: "char", Name: t.text}
	case "ident":
		if t.text == "old" && p.isOp("(") {
			p.next()
			e := p.expr()
			p.expect(")")
			return &SExpr{Op: "old", Args: []*SExpr{e}}
		}
		return &SExpr{Op: "ident", Name: t.text}
	case "op":
		if t.text == "(" {
			// conversion to a pointer / slice type: (*T)(x) or ([]byte)(x)
			if p.isOp("*") || p.isOp("[") {
				ty := p.typeStr()
				p.expect(")")
				p.expect("(")
				a := p.expr()
				p.expect(")")
				return &SExpr{Op: "conv", Name: ty, Args: []*SExpr{a}}
			}
			e := p.expr()
			p.expect(")")
			return e
		}
		if t.text == "[" {
			// []byte(x) style conversion or []T literal is not supported beyond conversion
			p.p--
			ty := p.typeStr()
			p.expect("(")
			a := p.expr()
			p.expect(")")
			return &SExpr{Op: "conv", Name: ty, Args: []*SExpr{a}}
		}
	}
	panic("unexpected stoken " + t.text)
}

func (e *SExpr) String() string {
	if e == nil {
		return ""
	}
	switch e.Op {
	case "ident", "num", "str", "char":
		return e.Name
	case "sel":
		return e.Args[0].String() + "." + e.Name
	case "call":
		var as []string
		for _, a := range e.Args[1:] {
			as = append(as, a.String())
		}
		return e.Args[0].String() + "(" + strings.Join(as, ", ") + ")"
	case "index":
		return e.Args[0].String() + "[" + e.Args[1].String() + "]"
	case "slice":
		return e.Args[0].String() + "[" + e.Args[1].String() + ":" + e.Args[2].String() + "]"
	case "old":
		return "old(" + e.Args[0].String() + ")"
	case "forall", "exists":
		var vs []string
		for _, v := range e.Vars {
			vs = append(vs, v.Name+" "+v.Type)
		}
		return e.Op + " " + strings.Join(vs, ", ") + " :: " + e.Args[0].String()
	case "!", "neg", "^u", "deref":
		return e.Op + e.Args[0].String()
	case "assert_type":
		return e.Args[0].String() + ".(" + e.Name + ")"
	case "conv":
		return e.Name + "(" + e.Args[0].String() + ")"
	}
	if len(e.Args) == 2 {
		return "(" + e.Args[0].String() + " " + e.Op + " " + e.Args[1].String() + ")"
	}
	return e.Op
}

// ------------------------------------------------------------------ contracts

type Clause struct {
	Kind string   // requires ensures invariant decreases assigns assert
	Tags []string // property ids
	Expr *SExpr
	Src  string
	Loop int // loop ordinal for invariant / decreases (-1 = any loop)
	File string
	Line int
	Name string // optional label
	Callee string // atcall: callee name
}

type Contract struct {
	Key      string // function key: pkgpath-qualified ssa name
	Header   string
	RecvName string
	Params   []string
	Results  []string
	Clauses  []*Clause
	Assigns  []*SExpr // nil = unspecified
	AssignsSet bool
	AssignsTags []string
	Pure     bool
	Trusted  bool // assumed (external) contract
	Inline   bool
	NoAlloc  bool
	Safety   []string // property tags for the zero-annotation safety obligations
	Replay   string
	File     string
	Line     int
	Pkg      string // package path the contract file belongs to (for name resolution)
	Used     bool
	Modifies []string // whole components havoc'd (raw names) for trusted contracts
	Implements string // key of the interface-method contract this function refines
	Reveal     []string // opaque definitions unfolded while verifying this function
	Callsback  bool     // the callee may invoke closures that escaped from the caller
	ImplTags   []string
}

type SpecDef struct {
	Kind   string // pred, ghostfn
	Name   string
	Params []specVar
	Ret    string
	Body   *SExpr
	Pkg    string
	File   string
	Opaque bool
}

type GhostDecl struct {
	Name   string
	Params []specVar
	Ret    string
	Pkg    string
	Immutable bool
	History  bool // "history": records what callees reported; exempt from frame checks
	HasRange bool // "range lo hi": every value of the ghost lies in [lo, hi)
	Lo, Hi   int64
}

type ContractSet struct {
	ByKey  map[string]*Contract
	Defs   map[string]*SpecDef
	Ghosts map[string]*GhostDecl
	Files  []string
	Errors []string
}

func newContractSet() *ContractSet {
	return &ContractSet{ByKey: map[string]*Contract{}, Defs: map[string]*SpecDef{}, Ghosts: map[string]*GhostDecl{}}
}

// parseTags splits "ensures[C01,C06]" into kind and tags.
func parseTags(word string) (string, []string, string) {
	name := ""
	if i := strings.Index(word, "["); i >= 0 && strings.HasSuffix(word, "]") {
		var tags []string
		for _, t := range strings.Split(word[i+1:len(word)-1], ",") {
			t = strings.TrimSpace(t)
			if strings.HasPrefix(t, "name=") {
				name = t[5:]
			} else if t != "" {
				tags = append(tags, t)
			}
		}
		return word[:i], tags, name
	}
	return word, nil, name
}

// splitTop splits s on sep at parenthesis depth 0.
func splitTop(s string, sep byte) []string {
	var out []string
	depth := 0
	last := 0
	for i := 0; i < len(s); i++ {
		switch s[i] {
		case '(', '[', '{':
			depth++
		case ')', ']', '}':
			depth--
		default:
			if s[i] == sep && depth == 0 {
				out = append(out, s[last:i])
				last = i + 1
			}
		}
	}
	out = append(out, s[last:])
	return out
}

func paramNames(list string) []string {
	list = strings.TrimSpace(list)
	if list == "" {
		return nil
	}
	var out []string
	for _, p := range splitTop(list, ',') {
		f := strings.Fields(strings.TrimSpace(p))
		if len(f) == 0 {
			continue
		}
		out = append(out, f[0])
	}
	return out
}

func paramVars(list string) []specVar {
	list = strings.TrimSpace(list)
	if list == "" {
		return nil
	}
	var out []specVar
	for _, p := range splitTop(list, ',') {
		f := strings.Fields(strings.TrimSpace(p))
		if len(f) == 1 {
			out = append(out, specVar{f[0], ""})
		} else if len(f) >= 2 {
			out = append(out, specVar{f[0], strings.Join(f[1:], "")})
		}
	}
	// "a, b T": propagate types backwards
	for i := len(out) - 2; i >= 0; i-- {
		if out[i].Type == "" {
			out[i].Type = out[i+1].Type
		}
	}
	return out
}

// matchParen returns the index of the parenthesis closing the one at s[i].
func matchParen(s string, i int) int {
	depth := 0
	for j := i; j < len(s); j++ {
		switch s[j] {
		case '(':
			depth++
		case ')':
			depth--
			if depth == 0 {
				return j
			}
		}
	}
	return -1
}

// parseHeader parses "func (cx *Connection) Read(p []byte) (n int, err error)".
func parseHeader(h string, pkgPath string) (*Contract, error) {
	c := &Contract{Header: h, Pkg: pkgPath}
	s := strings.TrimSpace(strings.TrimPrefix(strings.TrimSpace(h), "func"))
	recvType := ""
	if strings.HasPrefix(s, "(") {
		j := matchParen(s, 0)
		if j < 0 {
			return nil, fmt.Errorf("bad receiver in %q", h)
		}
		f := strings.Fields(s[1:j])
		if len(f) == 2 {
			c.RecvName, recvType = f[0], f[1]
		} else if len(f) == 1 {
			recvType = f[0]
		} else {
			return nil, fmt.Errorf("bad receiver in %q", h)
		}
		s = strings.TrimSpace(s[j+1:])
	}
	i := strings.Index(s, "(")
	if i < 0 {
		return nil, fmt.Errorf("no parameter list in %q", h)
	}
	name := strings.TrimSpace(s[:i])
	j := matchParen(s, i)
	if j < 0 {
		return nil, fmt.Errorf("unbalanced parameter list in %q", h)
	}
	c.Params = paramNames(s[i+1 : j])
	rest := strings.TrimSpace(s[j+1:])
	if strings.HasPrefix(rest, "(") {
		k := matchParen(rest, 0)
		c.Results = paramNames(rest[1:k])
	} else if rest != "" {
		c.Results = []string{"result"}
	}
	qual := func(t string) string {
		// qualify a bare type name with the contract file's package
		star := ""
		if strings.HasPrefix(t, "*") {
			star, t = "*", t[1:]
		}
		if !strings.Contains(t, ".") && pkgPath != "" {
			t = pkgPath + "." + t
		}
		return star + t
	}
	if recvType != "" {
		c.Key = "(" + qual(recvType) + ")." + name
	} else {
		if !strings.Contains(name, ".") && pkgPath != "" {
			name = pkgPath + "." + name
		}
		c.Key = name
	}
	return c, nil
}

// loadContractFile reads //@ lines from a Go file or all lines from a .gvc file.
func (cs *ContractSet) loadContractFile(path string, pkgPath string, trusted bool) {
	data, err := os.ReadFile(path)
	if err != nil {
		cs.Errors = append(cs.Errors, err.Error())
		return
	}
	cs.Files = append(cs.Files, path)
	isGo := strings.HasSuffix(path, ".go")
	var cur *Contract
	var lastClause *Clause
	var lastDef *SpecDef
	var pendingSrc *string
	for ln, raw := range strings.Split(string(data), "\n") {
		line := strings.TrimSpace(raw)
		if isGo {
			if !strings.HasPrefix(line, "//@") {
				if strings.HasPrefix(line, "package ") {
					continue
				}
				continue
			}
			line = strings.TrimSpace(line[3:])
		} else {
			if strings.HasPrefix(line, "#") || strings.HasPrefix(line, "//") {
				continue
			}
			if strings.HasPrefix(line, "package ") {
				pkgPath = strings.TrimSpace(line[8:])
				continue
			}
		}
		if line == "" {
			continue
		}
		fields := strings.Fields(line)
		kw, tags, label := parseTags(fields[0])
		rest := strings.TrimSpace(line[len(fields[0]):])
		where := fmt.Sprintf("%s:%d", filepath.Base(path), ln+1)
		switch kw {
		case "func":
			c, err := parseHeader(line, pkgPath)
			if err != nil {
				cs.Errors = append(cs.Errors, where+": "+err.Error())
				cur = nil
				continue
			}
			c.File, c.Line, c.Trusted = path, ln+1, trusted
			if old, ok := cs.ByKey[c.Key]; ok {
				cs.Errors = append(cs.Errors, fmt.Sprintf("%s: duplicate contract for %s (first at %s:%d)", where, c.Key, old.File, old.Line))
			}
			cs.ByKey[c.Key] = c
			cur = c
			lastClause, lastDef, pendingSrc = nil, nil, nil
		case "opaque":
			// opaque pred name(params) = body : hidden unless the contract says `reveal name`
			if len(fields) > 1 && (fields[1] == "pred" || fields[1] == "ghostfn") {
				rest2 := strings.TrimSpace(strings.TrimPrefix(rest, fields[1]))
				i := strings.Index(rest2, "(")
				j := matchParen(rest2, i)
				eq := -1
				if i >= 0 && j >= 0 {
					eq = strings.Index(rest2[j:], "=")
				}
				if i < 0 || j < 0 || eq < 0 {
					cs.Errors = append(cs.Errors, where+": malformed definition")
					continue
				}
				d := &SpecDef{Kind: fields[1], Name: strings.TrimSpace(rest2[:i]), Params: paramVars(rest2[i+1 : j]), Pkg: pkgPath, File: path, Opaque: true}
				d.Ret = strings.TrimSpace(rest2[j+1 : j+eq])
				body := strings.TrimSpace(rest2[j+eq+1:])
				src := body
				pendingSrc = &src
				lastDef, lastClause = d, nil
				cs.Defs[d.Name] = d
				cur = nil
				if body != "" {
					if e, err := parseSpec(body); err == nil {
						d.Body = e
					}
				}
			}
		case "reveal":
			if cur != nil {
				cur.Reveal = append(cur.Reveal, strings.Fields(strings.ReplaceAll(rest, ",", " "))...)
			}
		case "pred", "ghostfn":
			// pred name(params) = body
			i := strings.Index(rest, "(")
			j := matchParen(rest, i)
			eq := strings.Index(rest[j:], "=")
			if i < 0 || j < 0 || eq < 0 {
				cs.Errors = append(cs.Errors, where+": malformed definition")
				continue
			}
			d := &SpecDef{Kind: kw, Name: strings.TrimSpace(rest[:i]), Params: paramVars(rest[i+1 : j]), Pkg: pkgPath, File: path}
			d.Ret = strings.TrimSpace(rest[j+1 : j+eq])
			body := strings.TrimSpace(rest[j+eq+1:])
			src := body
			pendingSrc = &src
			lastDef, lastClause = d, nil
			cs.Defs[d.Name] = d
			cur = nil
			if body != "" {
				e, err := parseSpec(body)
				if err == nil {
					d.Body = e
				}
			}
		case "ghost":
			// ghost name(params) type [immutable]
			i := strings.Index(rest, "(")
			j := matchParen(rest, i)
			if i < 0 || j < 0 {
				cs.Errors = append(cs.Errors, where+": malformed ghost declaration")
				continue
			}
			g := &GhostDecl{Name: strings.TrimSpace(rest[:i]), Params: paramVars(rest[i+1 : j]), Pkg: pkgPath}
			f := strings.Fields(rest[j+1:])
			if len(f) > 0 {
				g.Ret = f[0]
			}
			if len(f) > 1 && f[1] == "immutable" {
				g.Immutable = true
			}
			for _, w := range f[1:] {
				if w == "history" {
					g.History = true
				}
			}
			for k := 1; k+2 < len(f); k++ {
				if f[k] == "range" {
					fmt.Sscanf(f[k+1], "%d", &g.Lo)
					fmt.Sscanf(f[k+2], "%d", &g.Hi)
					g.HasRange = true
				}
			}
			cs.Ghosts[g.Name] = g
			lastClause, lastDef, pendingSrc = nil, nil, nil
		case "atcall", "aftercall":
			// atcall <callee-name> <ordinal> <expr> : assertion in the caller's scope just before the
			// n-th call (source order) of a function or method with that name
			if cur == nil || len(fields) < 4 {
				cs.Errors = append(cs.Errors, where+": malformed atcall clause")
				continue
			}
			n := 0
			fmt.Sscanf(fields[2], "%d", &n)
			// the expression follows "<callee> <ordinal>" (a tag such as C17 may contain the digit)
			src := ""
			if k := strings.Index(line, fields[1]+" "+fields[2]); k >= 0 {
				src = strings.TrimSpace(line[k+len(fields[1])+1+len(fields[2]):])
			}
			cl := &Clause{Kind: kw, Tags: tags, Src: src, Loop: n, File: path, Line: ln + 1, Callee: fields[1], Name: fmt.Sprintf("%s:%s#%d", kw, fields[1], n)}
			cur.Clauses = append(cur.Clauses, cl)
			lastClause, lastDef = cl, nil
			pendingSrc = &cl.Src
		case "callsback":
			if cur != nil {
				cur.Callsback = true
			}
		case "requires", "ensures", "invariant", "decreases", "assert", "loop":
			if cur == nil {
				cs.Errors = append(cs.Errors, where+": clause outside a function contract")
				continue
			}
			loop := -1
			if kw == "loop" {
				// loop <n> invariant e
				if len(fields) < 3 {
					cs.Errors = append(cs.Errors, where+": malformed loop clause")
					continue
				}
				fmt.Sscanf(fields[1], "%d", &loop)
				kw2, t2, l2 := parseTags(fields[2])
				kw, tags, label = kw2, append(tags, t2...), l2
				rest = strings.TrimSpace(strings.SplitN(line, fields[2], 2)[1])
			}
			cl := &Clause{Kind: kw, Tags: tags, Src: rest, Loop: loop, File: path, Line: ln + 1, Name: label}
			cur.Clauses = append(cur.Clauses, cl)
			lastClause, lastDef = cl, nil
			pendingSrc = &cl.Src
		case "assigns":
			if cur == nil {
				cs.Errors = append(cs.Errors, where+": assigns outside a function contract")
				continue
			}
			cur.AssignsSet = true
			cur.AssignsTags = append(cur.AssignsTags, tags...)
			if rest != "nothing" {
				for _, a := range splitTop(rest, ',') {
					e, err := parseSpec(strings.TrimSpace(a))
					if err != nil {
						cs.Errors = append(cs.Errors, where+": "+err.Error())
						continue
					}
					cur.Assigns = append(cur.Assigns, e)
				}
			}
			lastClause, lastDef, pendingSrc = nil, nil, nil
		case "modifies":
			if cur != nil {
				cur.AssignsSet = true
				for _, a := range strings.Split(rest, ",") {
					cur.Modifies = append(cur.Modifies, strings.TrimSpace(a))
				}
			}
		case "implements":
			if cur != nil {
				c2, err := parseHeader("func "+rest+"()", pkgPath)
				if err == nil {
					cur.Implements = c2.Key
				} else {
					cs.Errors = append(cs.Errors, where+": "+err.Error())
				}
				cur.ImplTags = tags
			}
		case "pure":
			if cur != nil {
				cur.Pure, cur.AssignsSet, cur.NoAlloc = true, true, true
			}
		case "noalloc":
			if cur != nil {
				cur.NoAlloc = true
			}
		case "inline":
			if cur != nil {
				cur.Inline = true
			}
		case "trusted":
			if cur != nil {
				cur.Trusted = true
			}
		case "verified":
			// a contract kept outside the repository whose function body is nevertheless verified
			if cur != nil {
				cur.Trusted = false
			}
		case "safety":
			if cur != nil {
				cur.Safety = append(cur.Safety, strings.Fields(strings.ReplaceAll(rest, ",", " "))...)
			}
		case "replay":
			if cur != nil {
				cur.Replay = rest
			}
		default:
			// continuation line of the previous clause / definition
			if pendingSrc != nil {
				*pendingSrc = *pendingSrc + " " + line
				if lastDef != nil {
					e, err := parseSpec(*pendingSrc)
					if err == nil {
						lastDef.Body = e
					}
				}
			} else {
				cs.Errors = append(cs.Errors, where+": unrecognised contract line: "+line)
			}
		}
		_ = lastClause
	}
}

// finish parses clause sources (after continuation lines have been joined).
func (cs *ContractSet) finish() {
	for _, c := range cs.ByKey {
		for _, cl := range c.Clauses {
			if cl.Expr != nil {
				continue
			}
			e, err := parseSpec(cl.Src)
			if err != nil {
				cs.Errors = append(cs.Errors, fmt.Sprintf("%s:%d: %v", filepath.Base(cl.File), cl.Line, err))
				continue
			}
			cl.Expr = e
		}
	}
	for _, d := range cs.Defs {
		if d.Body == nil {
			cs.Errors = append(cs.Errors, fmt.Sprintf("definition %s: body does not parse", d.Name))
		}
	}
}
