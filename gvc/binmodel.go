package main

// Native model of encoding/binary.Read and encoding/binary.Write for the case the codecs of
// /repo use: a *bytes.Buffer as reader / writer, one of the two standard byte orders, and a pointer
// to a fixed-size value (integers, bools, arrays and structs of these). The real functions are
// reflection-driven and outside the engine's subset; this model follows encoding/binary's
// documented layout (fields in order, blank fields skipped, no padding) and bytes.Buffer's
// Read/Write as they are in GOROOT:
//   Read : fewer than size bytes left -> the data is untouched, the buffer is drained and reset,
//          err is io.EOF (nothing left) or io.ErrUnexpectedEOF; otherwise size bytes are decoded
//          into *data, the read offset advances by size, err is nil;
//   Write: size bytes are encoded and passed to the real (*bytes.Buffer).Write (executed from
//          GOROOT source like any other inlined function).
// Anything else (other readers, slices, non-pointer data) falls through to the assumed contract.

import (
	"go/token"
	"go/types"
	"strings"

	"golang.org/x/tools/go/ssa"
)

func fixedSize(t types.Type) (int64, bool) {
	switch u := under(t).(type) {
	case *types.Basic:
		switch u.Kind() {
		case types.Bool, types.Int8, types.Uint8:
			return 1, true
		case types.Int16, types.Uint16:
			return 2, true
		case types.Int32, types.Uint32:
			return 4, true
		case types.Int64, types.Uint64:
			return 8, true
		}
	case *types.Array:
		n, ok := fixedSize(u.Elem())
		if !ok || u.Len() > 4096 {
			return 0, false
		}
		return n * u.Len(), true
	case *types.Struct:
		var s int64
		for i := 0; i < u.NumFields(); i++ {
			n, ok := fixedSize(u.Field(i).Type())
			if !ok {
				return 0, false
			}
			s += n
		}
		return s, true
	}
	return 0, false
}

func litType(ex *Exec, v Val) (types.Type, *IfaceV) {
	iv, ok := v.(*IfaceV)
	if !ok || !iv.Tag.isLit() {
		return nil, nil
	}
	t, ok := ex.P.typeByKey[typeTagNames[iv.Tag.val.Int64()]]
	if !ok {
		return nil, nil
	}
	return t, iv
}

func fieldIndex(st *types.Struct, name string) int {
	for i := 0; i < st.NumFields(); i++ {
		if st.Field(i).Name() == name {
			return i
		}
	}
	return -1
}

// binWalk visits the scalar leaves of a fixed-size value at pointer p in encoding order.
func (ex *Exec) binWalk(t types.Type, p *Term, visit func(bt *types.Basic, lt types.Type, p *Term, skip bool), skip bool) {
	switch u := under(t).(type) {
	case *types.Basic:
		visit(u, t, p, skip)
	case *types.Array:
		for k := int64(0); k < u.Len(); k++ {
			ex.binWalk(u.Elem(), elemPtr(u.Elem(), p, BVu(uint64(k), 64)), visit, skip)
		}
	case *types.Struct:
		for i := 0; i < u.NumFields(); i++ {
			ex.binWalk(u.Field(i).Type(), fieldPtr(t, i, p), visit, skip || u.Field(i).Name() == "_")
		}
	}
}

func (ex *Exec) binaryModel(fr *Frame, fn *ssa.Function, args []Val, st *State, pc **Term, pos token.Pos) *nativeRes {
	name := fn.Name()
	if (name != "Read" && name != "Write") || len(args) != 3 || fn.Signature.Recv() != nil {
		return nil
	}
	rwT, rw := litType(ex, args[0])
	ordT, _ := litType(ex, args[1])
	dT, data := litType(ex, args[2])
	if rwT == nil || ordT == nil || dT == nil {
		return nil
	}
	if typeKey(rwT) != "*bytes.Buffer" {
		return nil
	}
	big := false
	switch typeKey(ordT) {
	case "encoding/binary.bigEndian":
		big = true
	case "encoding/binary.littleEndian":
	default:
		return nil
	}
	dpt, ok := under(dT).(*types.Pointer)
	if !ok {
		return nil
	}
	size, ok := fixedSize(dpt.Elem())
	if !ok {
		return nil
	}
	bufT := under(rwT).(*types.Pointer).Elem()
	bst := structOf(bufT)
	iBuf, iOff, iLast := fieldIndex(bst, "buf"), fieldIndex(bst, "off"), fieldIndex(bst, "lastRead")
	if bst == nil || iBuf < 0 || iOff < 0 || iLast < 0 {
		return nil
	}
	b := unbox(rwT, rw.Data).(*Term)
	dp := unbox(dT, data.Data).(*Term)
	for _, g := range []*Term{Neq(b, Null), Neq(dp, Null)} {
		ex.safety(fr, "nil", pos, *pc, g, "encoding/binary."+name+": nil buffer or nil data pointer")
		*pc = And(*pc, g)
	}
	ex.assumes["encoding/binary.Read/Write on a *bytes.Buffer with a pointer to a fixed-size value follow the native model (gvc/binmodel.go): documented layout of encoding/binary, bytes.Buffer.Read semantics from GOROOT"] = true
	u8 := types.Typ[types.Uint8]
	sizeT := BVu(uint64(size), 64)
	errT := fn.Signature.Results().At(0).Type()
	nilErr := zeroVal(errT)
	if name == "Read" {
		sv := ex.loadField(st, bufT, iBuf, b).(*SliceV)
		off := ex.loadField(st, bufT, iOff, b).(*Term)
		// bytes.Buffer invariant 0 <= off <= len(buf) (b.buf[b.off:] in the real code)
		g := And(BVCmp("bvsle", BVu(0, 64), off), BVCmp("bvsle", off, sv.Len))
		ex.safety(fr, "slice", pos, *pc, g, "bytes.Buffer read offset within the buffer")
		*pc = And(*pc, g)
		avail := BVOp("bvsub", sv.Len, off)
		okc := BVCmp("bvsle", sizeT, avail)
		sOK, sFail := st.clone(), st.clone()
		// success: decode
		k := int64(0)
		ex.binWalk(dpt.Elem(), dp, func(bt *types.Basic, lt types.Type, p *Term, skip bool) {
			n, _ := fixedSize(bt)
			bs := make([]*Term, n)
			for j := int64(0); j < n; j++ {
				bs[j] = ex.loadElem(sOK, u8, sv.Arr, BVOp("bvadd", BVOp("bvadd", sv.Off, off), BVu(uint64(k+j), 64))).(*Term)
			}
			k += n
			if skip {
				return
			}
			var v *Term
			if bt.Kind() == types.Bool {
				v = Neq(bs[0], BVu(0, 8))
			} else {
				// v = sum of byte j shifted to its place (as the byte-order functions compute it)
				w := int(8 * n)
				for j := int64(0); j < n; j++ {
					sh := j
					if big {
						sh = n - 1 - j
					}
					part := Resize(bs[j], w, false)
					if sh > 0 {
						part = BVOp("bvshl", part, BVu(uint64(8*sh), w))
					}
					if v == nil {
						v = part
					} else {
						v = BVOp("bvor", v, part)
					}
				}
			}
			ex.storePtr(sOK, lt, p, v)
		}, false)
		ex.storeField(sOK, bufT, iOff, b, BVOp("bvadd", off, sizeT))
		ex.storeField(sOK, bufT, iLast, b, BVu(0xff, 8))
		// failure: drained and reset
		ex.storeField(sFail, bufT, iBuf, b, &SliceV{Arr: sv.Arr, Off: sv.Off, Len: BVu(0, 64), Cap: sv.Cap})
		ex.storeField(sFail, bufT, iOff, b, BVu(0, 64))
		ex.storeField(sFail, bufT, iLast, b, BVu(0, 8))
		ex.mergeInto(st, okc, sOK, sFail)
		eof := ex.pkgVarVal(st, "io", "EOF", errT)
		ueof := ex.pkgVarVal(st, "io", "ErrUnexpectedEOF", errT)
		if eof == nil || ueof == nil {
			return nil
		}
		failErr := iteVal(Eq(avail, BVu(0, 64)), errT, eof, ueof)
		return &nativeRes{iteVal(okc, errT, nilErr, failErr)}
	}
	// Write: encode into a fresh byte slice and hand it to the real (*bytes.Buffer).Write
	arr := ex.alloc(st, "binwrite")
	k := int64(0)
	ex.binWalk(dpt.Elem(), dp, func(bt *types.Basic, lt types.Type, p *Term, skip bool) {
		n, _ := fixedSize(bt)
		var v *Term
		if skip {
			v = BVu(0, int(8*n))
		} else if bt.Kind() == types.Bool {
			v = Ite(ex.loadPtr(st, lt, p).(*Term), BVu(1, 8), BVu(0, 8))
		} else {
			v = ex.loadPtr(st, lt, p).(*Term)
		}
		for j := int64(0); j < n; j++ {
			// byte j of the encoding
			var sh int64
			if big {
				sh = n - 1 - j
			} else {
				sh = j
			}
			w := int(8 * n)
			byteV := v
			if sh > 0 {
				byteV = BVOp("bvlshr", v, BVu(uint64(8*sh), w))
			}
			byteV = Resize(byteV, 8, false)
			ex.storeElem(st, u8, arr, BVu(uint64(k+j), 64), byteV)
		}
		k += n
	}, false)
	bs := &SliceV{Arr: arr, Off: BVu(0, 64), Len: sizeT, Cap: sizeT}
	wfn := ex.P.prog.LookupMethod(rwT, nil, "Write")
	if wfn == nil {
		return nil
	}
	rv, npc := ex.callFunc(fr, wfn, []Val{b, bs}, nil, st, *pc, pos)
	*pc = npc
	if tv, ok := rv.(TupleV); ok && len(tv) == 2 {
		return &nativeRes{tv[1]}
	}
	return &nativeRes{nilErr}
}

// pkgVarVal loads a package-level variable by package path and name.
func (ex *Exec) pkgVarVal(st *State, pkgPath, name string, t types.Type) Val {
	for _, p := range ex.P.prog.AllPackages() {
		if p.Pkg.Path() == pkgPath {
			if g, ok := p.Members[name].(*ssa.Global); ok {
				return ex.loadPtr(st, t, ex.globalPtr(g))
			}
		}
	}
	return nil
}

var _ = strings.HasPrefix
