package main

// Symbolic execution of go/ssa functions into verification conditions.
// Block-level merging (no path enumeration); loops cut at their headers.

import (
	"fmt"
	"go/constant"
	"go/token"
	"go/types"
	"sort"
	"strings"

	"golang.org/x/tools/go/ssa"
)

type Obligation struct {
	Name   string
	Fn     string
	Kind   string
	Pos    string
	Desc   string
	PC     *Term
	Goal   *Term
	Tags   []string
	Clause *Clause
	// filled by the solver stage
	Verdict string
	Solver  string
	Seconds float64
	Model   string
	Script  string
	Reason  string
	ScriptBytes int
	FailedGoal *Term
	Pair       *Obligation // cover pairs: this cover only counts when Pair is satisfiable
	Soft       bool        // a cover that is only the reference of a pair
	Confirm    string      // thorough tier: confirmed | unconfirmed | CONTRADICTED ...
	Rets       []Val       // post obligations: the values being returned
}

type Exec struct {
	collect *[]string // when set, havocComp records component names instead of havocing
	P    *Prog
	root *ssa.Function
	rct  *Contract

	obls     []*Obligation
	callCovers map[string]bool
	curRets    []Val // values being returned while post obligations are generated
	closureBind map[string]specBinding // captured variables of the closure whose contract is being applied
	notes    map[string]bool
	discover bool
	wlogs    []*writeLog
	written  map[string]bool
	revealed map[string]bool
	inCallback int
	loopHavoc  bool
	localCells map[string][]*Term
	tagFacts map[int]*Term // interface tag term -> literal type tag known from the precondition

	pendingAssume []*Term
	immutable     map[string][]*Term

	cands    []*Candidate // Houdini candidates
	oblCount map[string]int

	inlined   map[string]bool
	usedCts   map[string]bool
	unchecked map[string]bool
	safetyTags []string
	assumes   map[string]bool
	curFrame  *Frame
	covers    []*Obligation
	initMode  bool
	houdini   []*houdiniObl
	atomicOps map[string]bool
}

type Candidate struct {
	Enable *Term
	Src    string
	Loop   string
	Auto   bool
	Alive  bool
	User   *Clause
}

type edgeInfo struct {
	pc    *Term
	st    *State
	guard *Term // branch conditions only (no assumptions): used to discriminate merges
}

type retEdge struct {
	pc    *Term
	st    *State
	vals  []Val
	guard *Term
}

type Frame struct {
	fn     *ssa.Function
	ct     *Contract
	vals   map[ssa.Value]Val
	entry  *State
	args   []Val
	depth  int
	rets   []retEdge
	edges  map[[2]int]edgeInfo
	deferFns []Val
	root   bool
	defers []*ssa.Defer
	names  map[string][]nameDef
	curBlk *ssa.BasicBlock
	callPos token.Pos
	parent *Frame
	callOrd map[ssa.Instruction]int
	closures []*FuncV // closures created in this frame (for callback effects)
	guard  *Term // guard of the block being executed
	guard0 *Term // guard at function entry
}

type nameDef struct {
	blk    *ssa.BasicBlock
	idx    int
	val    ssa.Value
	isAddr bool
}

func (ex *Exec) unsupported(msg string) {
	if ex.curFrame != nil {
		msg = ex.curFrame.fn.String() + ": " + msg
	}
	ex.notes[msg] = true
}

func (ex *Exec) posOf(p token.Pos) string {
	if !p.IsValid() {
		return ""
	}
	pp := ex.P.fset.Position(p)
	f := pp.Filename
	if i := strings.Index(f, "/repo/"); i >= 0 {
		f = f[i+6:]
	}
	return fmt.Sprintf("%s:%d", f, pp.Line)
}

func (ex *Exec) addObl(fr *Frame, kind string, pos token.Pos, pc, goal *Term, desc string, tags []string, cl *Clause) {
	if ex.discover {
		return
	}
	if goal == True || pc == False {
		// trivially discharged: still counted
	}
	fnName := ex.P.relName(fr.fn)
	key := fnName + "/" + kind
	ex.oblCount[key]++
	name := fmt.Sprintf("%s#%d", key, ex.oblCount[key])
	if cl != nil && cl.Name != "" {
		name = fnName + "/" + cl.Name
		ex.oblCount[name]++
		if ex.oblCount[name] > 1 {
			name = fmt.Sprintf("%s#%d", name, ex.oblCount[name])
		}
	}
	if fr != nil && !fr.root {
		// obligation inside an inlined callee: name it after the root as well
		name = ex.P.relName(ex.root) + "/" + name
	}
	if !pos.IsValid() && fr != nil {
		pos = fr.callPos
	}
	ex.obls = append(ex.obls, &Obligation{Name: name, Fn: ex.P.relName(ex.root), Kind: kind, Pos: ex.posOf(pos), Desc: desc, PC: pc, Goal: goal, Tags: tags, Clause: cl, Rets: ex.curRets})
}

func (ex *Exec) safety(fr *Frame, kind string, pos token.Pos, pc, goal *Term, desc string) {
	ex.addObl(fr, kind, pos, pc, goal, desc, ex.safetyTags, nil)
}

// ------------------------------------------------------------------ values

func (ex *Exec) constVal(c *ssa.Const) Val {
	t := c.Type()
	if c.Value == nil {
		return zeroVal(t)
	}
	switch u := under(t).(type) {
	case *types.Basic:
		if w, _, ok := intInfo(u); ok {
			v := constant.ToInt(c.Value)
			bi, _ := new(bigInt).SetString(v.ExactString(), 10)
			return BVLit(bi, w)
		}
		if isBoolT(u) {
			return Bool(constant.BoolVal(c.Value))
		}
		if isString(u) {
			return ex.strLit(constant.StringVal(c.Value))
		}
		if isFloat(u) {
			return App("float$const", SFloat, IntLit(int64(hashStr(c.Value.ExactString()))))
		}
	case *types.Interface:
		return zeroVal(t)
	}
	ex.unsupported("constant of type " + t.String())
	return freshVal("const", t)
}

var STR = Var("STR", ArrSort(SRef, ArrSort(BV(64), BV(8))))

func hashStr(s string) uint32 {
	h := uint32(2166136261)
	for i := 0; i < len(s); i++ {
		h ^= uint32(s[i])
		h *= 16777619
	}
	return h & 0x7fffffff
}

var strLits = map[string]*SliceV{}

func (ex *Exec) strLit(s string) *SliceV {
	if v, ok := strLits[s]; ok {
		return v
	}
	arr := Var(fmt.Sprintf("strlit$%d$%08x", len(s), hashStr(s)), SRef)
	arr.AddFact(Eq(birth(arr), IntLit(-2-int64(len(strLits)))))
	arr.AddFact(Neq(arr, Null))
	n := len(s)
	if n > 256 {
		n = 256
	}
	content := Select(STR, arr)
	for i := 0; i < n; i++ {
		arr.AddFact(Eq(Select(content, BVu(uint64(i), 64)), BVu(uint64(s[i]), 8)))
	}
	v := &SliceV{Arr: arr, Off: BVu(0, 64), Len: BVu(uint64(len(s)), 64)}
	strLits[s] = v
	return v
}

func (ex *Exec) strByte(s *SliceV, i *Term) *Term {
	return Select(Select(STR, s.Arr), BVOp("bvadd", s.Off, i))
}

// strEq: content equality of two strings.
func (ex *Exec) strEq(a, b *SliceV) *Term {
	if a.Arr == b.Arr && a.Off == b.Off && a.Len == b.Len {
		return True
	}
	lenEq := Eq(a.Len, b.Len)
	if lenEq == False {
		return False
	}
	var n *Term
	if a.Len.isLit() {
		n = a.Len
	} else if b.Len.isLit() {
		n = b.Len
	}
	if n != nil && n.val.Int64() <= 64 {
		cs := []*Term{lenEq}
		for i := int64(0); i < n.val.Int64(); i++ {
			k := BVu(uint64(i), 64)
			cs = append(cs, Eq(ex.strByte(a, k), ex.strByte(b, k)))
		}
		return And(cs...)
	}
	k := Bound("k", BV(64))
	body := Implies(And(BVCmp("bvsle", BVu(0, 64), k), BVCmp("bvslt", k, a.Len)), Eq(ex.strByte(a, k), ex.strByte(b, k)))
	return And(lenEq, Forall([]*Term{k}, body))
}

func (ex *Exec) val(fr *Frame, v ssa.Value) Val {
	switch x := v.(type) {
	case *ssa.Const:
		return ex.constVal(x)
	case *ssa.Global:
		return ex.globalVal(x)
	case *ssa.Function:
		return &FuncV{Fn: x}
	case *ssa.Builtin:
		return nil
	}
	r, ok := fr.vals[v]
	if !ok {
		// value defined in a block that was not executed (unreachable) or unsupported
		r = freshVal("undef$"+v.Name(), v.Type())
		fr.vals[v] = r
	}
	return r
}

func (ex *Exec) globalPtr(g *ssa.Global) *Term {
	name := "glob$" + g.Pkg.Pkg.Path() + "." + g.Name()
	ex.P.globByName[sanitize(name)] = g
	return App(name, SRef)
}

// globalVal: the pointer value of a global as seen by instructions. Aggregate globals are
// objects of their own (so that field addresses and method receivers work).
func (ex *Exec) globalVal(g *ssa.Global) *Term {
	p := ex.globalPtr(g)
	et := g.Type().(*types.Pointer).Elem()
	if aggregate(et) {
		o := Var(p.name+"$obj", SRef)
		o.AddFact(And(Neq(o, Null), IntOp("<", birth(o), IntLit(0)), Eq(App("kind", SInt, o), IntLit(0))))
		return o
	}
	return p
}

func (ex *Exec) term(fr *Frame, v ssa.Value) *Term {
	t, ok := ex.val(fr, v).(*Term)
	if !ok {
		panic(fmt.Sprintf("expected scalar for %s (%s), got %T", v.Name(), v.Type(), ex.val(fr, v)))
	}
	return t
}

// ------------------------------------------------------------------ running a function

type bigInt = bigIntT

func (ex *Exec) newFrame(fn *ssa.Function, args []Val, bind []Val, st *State, parent *Frame) *Frame {
	fr := &Frame{fn: fn, vals: map[ssa.Value]Val{}, args: args, edges: map[[2]int]edgeInfo{}, parent: parent}
	fr.guard0 = True
	if parent != nil {
		fr.depth = parent.depth + 1
		if parent.guard != nil {
			fr.guard0 = parent.guard
		}
	}
	for i, p := range fn.Params {
		fr.vals[p] = args[i]
	}
	for i, fv := range fn.FreeVars {
		fr.vals[fv] = bind[i]
	}
	fr.entry = st.clone()
	fr.ct = ex.P.contractFor(fn)
	return fr
}

func isBackEdge(p, h *ssa.BasicBlock) bool { return h.Dominates(p) }

// rpo computes a reverse post-order ignoring back edges.
func rpo(fn *ssa.Function) []*ssa.BasicBlock {
	seen := map[*ssa.BasicBlock]bool{}
	var post []*ssa.BasicBlock
	var dfs func(b *ssa.BasicBlock)
	dfs = func(b *ssa.BasicBlock) {
		seen[b] = true
		for _, s := range b.Succs {
			if !seen[s] && !isBackEdge(b, s) {
				dfs(s)
			}
		}
		post = append(post, b)
	}
	dfs(fn.Blocks[0])
	for i, j := 0, len(post)-1; i < j; i, j = i+1, j-1 {
		post[i], post[j] = post[j], post[i]
	}
	return post
}

// loopBody returns the blocks of the natural loop with header h.
func loopBody(h *ssa.BasicBlock) map[*ssa.BasicBlock]bool {
	body := map[*ssa.BasicBlock]bool{h: true}
	var stack []*ssa.BasicBlock
	for _, p := range h.Preds {
		if isBackEdge(p, h) && !body[p] {
			body[p] = true
			stack = append(stack, p)
		}
	}
	for len(stack) > 0 {
		b := stack[len(stack)-1]
		stack = stack[:len(stack)-1]
		for _, p := range b.Preds {
			if !body[p] {
				body[p] = true
				stack = append(stack, p)
			}
		}
	}
	return body
}

func isLoopHeader(b *ssa.BasicBlock) bool {
	for _, p := range b.Preds {
		if isBackEdge(p, b) {
			return true
		}
	}
	return false
}

// loopOrdinal: index of header among loop headers in source (block index) order.
func loopOrdinal(h *ssa.BasicBlock) int {
	n := 0
	for _, b := range h.Parent().Blocks {
		if b == h {
			return n
		}
		if isLoopHeader(b) {
			n++
		}
	}
	return -1
}

func succIndex(p, s *ssa.BasicBlock, nth int) int {
	for i, x := range p.Succs {
		if x == s {
			if nth == 0 {
				return i
			}
			nth--
		}
	}
	return -1
}

// run executes fr.fn from state st under path condition pc and returns the merged result.
func (ex *Exec) run(fr *Frame, st *State, pc *Term) (rets []Val, out *State, outpc *Term) {
	fn := fr.fn
	if fn.Blocks == nil {
		panic("run: no body for " + fn.String())
	}
	saved := ex.curFrame
	ex.curFrame = fr
	defer func() { ex.curFrame = saved }()
	ex.buildNames(fr)
	if fn.Recover != nil {
		ex.unsupported("recover block ignored")
	}
	ex.execBlocks(fr, nil, fn.Blocks[0], edgeInfo{pc, st, fr.guard0}, nil)
	// merge returns
	if len(fr.rets) == 0 {
		return nil, st, False
	}
	last := fr.rets[len(fr.rets)-1]
	out, outpc = last.st, last.pc
	rets = last.vals
	res := fn.Signature.Results()
	for k := len(fr.rets) - 2; k >= 0; k-- {
		r := fr.rets[k]
		m := newState()
		m.extyp = out.extyp
		ex.mergeInto(m, r.guard, r.st, out)
		out = m
		nv := make([]Val, len(rets))
		for i := range rets {
			nv[i] = iteVal(r.guard, res.At(i).Type(), r.vals[i], rets[i])
		}
		rets = nv
		outpc = Or(r.pc, outpc)
	}
	return rets, out, outpc
}

// execBlocks executes the blocks of fr.fn in reverse post-order. With region == nil the whole
// function is executed from its entry block. With a region (a loop body) execution starts at
// start (the loop header) with the given incoming edge and phi values: this is the probe that
// finds out what one iteration of the loop writes.
func (ex *Exec) execBlocks(fr *Frame, region map[*ssa.BasicBlock]bool, start *ssa.BasicBlock, startEdge edgeInfo, startPhis map[*ssa.Phi]Val) {
	order := rpo(fr.fn)
	for _, b := range order {
		if region != nil && !region[b] {
			continue
		}
		// gather incoming forward edges
		type inc struct {
			pred *ssa.BasicBlock
			e    edgeInfo
			pidx int // index into b.Preds
		}
		var ins []inc
		if b == start {
			ins = append(ins, inc{nil, startEdge, -1})
		} else {
			for pi, p := range b.Preds {
				if isBackEdge(p, b) {
					continue
				}
				if region != nil && !region[p] {
					continue
				}
				// which successor slot of p is this pred entry? handle duplicate edges
				nth := 0
				for k := 0; k < pi; k++ {
					if b.Preds[k] == p {
						nth++
					}
				}
				si := succIndex(p, b, nth)
				if e, ok := fr.edges[[2]int{p.Index, si}]; ok && e.pc != False {
					ins = append(ins, inc{p, e, pi})
				}
			}
		}
		if len(ins) == 0 {
			continue
		}
		// merge
		var cur *State
		var bpc *Term
		if len(ins) == 1 {
			cur = ins[0].e.st.clone()
			bpc = ins[0].e.pc
			fr.guard = ins[0].e.guard
		} else {
			cur = ins[len(ins)-1].e.st.clone()
			bpc = ins[len(ins)-1].e.pc
			fr.guard = ins[len(ins)-1].e.guard
			for k := len(ins) - 2; k >= 0; k-- {
				m := newState()
				m.extyp = cur.extyp
				ex.mergeInto(m, ins[k].e.guard, ins[k].e.st, cur)
				cur = m
				bpc = Or(ins[k].e.pc, bpc)
				fr.guard = Or(ins[k].e.guard, fr.guard)
			}
		}
		fr.curBlk = b
		// phis
		phiVal := func(phi *ssa.Phi) Val {
			var v Val
			for k := len(ins) - 1; k >= 0; k-- {
				x := ex.val(fr, phi.Edges[ins[k].pidx])
				if v == nil {
					v = x
				} else {
					v = iteVal(ins[k].e.guard, phi.Type(), x, v)
				}
			}
			return v
		}
		switch {
		case b == start && region != nil:
			for phi, v := range startPhis {
				fr.vals[phi] = v
			}
		case isLoopHeader(b):
			bpc = ex.loopHead(fr, b, cur, bpc, phiVal)
		default:
			for _, in := range b.Instrs {
				phi, ok := in.(*ssa.Phi)
				if !ok {
					break
				}
				fr.vals[phi] = phiVal(phi)
			}
		}
		// instructions
		for _, in := range b.Instrs {
			if _, ok := in.(*ssa.Phi); ok {
				continue
			}
			if bpc == False {
				break
			}
			bpc = ex.instr(fr, in, cur, bpc)
			if len(ex.pendingAssume) > 0 {
				bpc = And(append([]*Term{bpc}, ex.pendingAssume...)...)
				ex.pendingAssume = nil
			}
		}
		// back edges out of b: invariant preservation
		for si, s := range b.Succs {
			if isBackEdge(b, s) {
				if e, ok := fr.edges[[2]int{b.Index, si}]; ok {
					ex.loopBack(fr, s, b, e)
				}
			}
		}
	}
}

// writeLog: what a probed loop iteration writes.
type writeLog struct {
	whole map[string]bool
	refs  map[string]map[int]*Term
	extra map[string]bool
}

func newWriteLog() *writeLog {
	return &writeLog{whole: map[string]bool{}, refs: map[string]map[int]*Term{}, extra: map[string]bool{}}
}

// probeLoop executes one iteration of the loop at h from the current state (obligations off) and
// returns what it writes.
func (ex *Exec) probeLoop(fr *Frame, h *ssa.BasicBlock, cur *State, pc *Term, entryVals map[*ssa.Phi]Val) *writeLog {
	pf := *fr
	pf.vals = make(map[ssa.Value]Val, len(fr.vals))
	for k, v := range fr.vals {
		pf.vals[k] = v
	}
	pf.edges = make(map[[2]int]edgeInfo, len(fr.edges))
	for k, v := range fr.edges {
		pf.edges[k] = v
	}
	pf.rets = append([]retEdge{}, fr.rets...)
	pf.defers = append([]*ssa.Defer{}, fr.defers...)
	pf.deferFns = append([]Val{}, fr.deferFns...)
	wl := newWriteLog()
	savedDisc, savedFrame, savedPend := ex.discover, ex.curFrame, ex.pendingAssume
	ex.discover = true
	ex.curFrame = &pf
	ex.pendingAssume = nil
	ex.wlogs = append(ex.wlogs, wl)
	ex.execBlocks(&pf, loopBody(h), h, edgeInfo{pc, cur.clone(), fr.guard}, entryVals)
	ex.wlogs = ex.wlogs[:len(ex.wlogs)-1]
	ex.discover, ex.curFrame, ex.pendingAssume = savedDisc, savedFrame, savedPend
	return wl
}

func (ex *Exec) setEdge(fr *Frame, b *ssa.BasicBlock, si int, pc *Term, st *State, guard *Term) {
	fr.edges[[2]int{b.Index, si}] = edgeInfo{pc, st, guard}
}

// ------------------------------------------------------------------ names for invariants

func (ex *Exec) buildNames(fr *Frame) {
	if fr.names != nil {
		return
	}
	fr.names = map[string][]nameDef{}
	for _, b := range fr.fn.Blocks {
		for i, in := range b.Instrs {
			switch x := in.(type) {
			case *ssa.DebugRef:
				if id, ok := x.Expr.(interface{ String() string }); ok {
					_ = id
				}
				if obj := x.Object(); obj != nil {
					if u, isLoad := x.X.(*ssa.UnOp); isLoad && !x.IsAddr && u.Op == token.MUL {
						// a read of an address-taken variable: the loaded value goes stale, the
						// variable is resolved through its cell (Alloc / free variable) instead
						switch u.X.(type) {
						case *ssa.Alloc, *ssa.FreeVar:
							continue
						}
					}
					fr.names[obj.Name()] = append(fr.names[obj.Name()], nameDef{b, i, x.X, x.IsAddr})
				}
			case *ssa.Phi:
				if x.Comment != "" {
					fr.names[x.Comment] = append(fr.names[x.Comment], nameDef{b, i, x, false})
				}
			case *ssa.Alloc:
				if x.Comment != "" && !strings.Contains(x.Comment, " ") {
					fr.names[x.Comment] = append(fr.names[x.Comment], nameDef{b, i, x, true})
				}
			}
		}
	}
}

// lookupLocal resolves a source-level variable name at the top of block at (after its phis).
func (ex *Exec) lookupLocal(fr *Frame, name string, at *ssa.BasicBlock, st *State) (Val, types.Type, bool) {
	return ex.lookupLocalAt(fr, name, at, -1, st)
}

// lookupLocalAt resolves a source-level variable name just before instruction atIdx of block at
// (atIdx < 0: at the top of the block, after its phis).
func (ex *Exec) lookupLocalAt(fr *Frame, name string, at *ssa.BasicBlock, atIdx int, st *State) (Val, types.Type, bool) {
	defs := fr.names[name]
	var best *nameDef
	later := func(a, b *nameDef) bool { // is a later than b?
		if a.blk == b.blk {
			return a.idx > b.idx
		}
		return b.blk.Dominates(a.blk)
	}
	for i := range defs {
		d := &defs[i]
		_, isPhi := d.val.(*ssa.Phi)
		ok := false
		if d.blk == at {
			ok = isPhi || d.idx < atIdx
		} else {
			ok = d.blk.Dominates(at)
		}
		if ok && (best == nil || later(d, best)) {
			best = d
		}
	}
	if best != nil {
		v := ex.val(fr, best.val)
		if best.isAddr {
			pt := best.val.Type().(*types.Pointer).Elem()
			return ex.loadPtr(st, pt, v.(*Term)), pt, true
		}
		return v, best.val.Type(), true
	}
	for _, p := range fr.fn.Params {
		if p.Name() == name {
			return ex.val(fr, p), p.Type(), true
		}
	}
	for _, p := range fr.fn.FreeVars {
		if p.Name() == name {
			// free variables are pointers to the captured cell
			pt := p.Type().(*types.Pointer).Elem()
			return ex.loadPtr(st, pt, ex.term(fr, p)), pt, true
		}
	}
	return nil, nil, false
}

// ------------------------------------------------------------------ loops

func (ex *Exec) loopKey(fr *Frame, h *ssa.BasicBlock) string {
	return fmt.Sprintf("%s#loop%d", ex.P.relName(fr.fn), loopOrdinal(h))
}

type loopCand struct {
	c    *Candidate
	eval func(env *SpecEnv) *Term
}

// loopHead handles a loop header: establishes candidates on entry, havocs, assumes.
func (ex *Exec) loopHead(fr *Frame, h *ssa.BasicBlock, cur *State, pc *Term, phiVal func(*ssa.Phi) Val) *Term {
	var phis []*ssa.Phi
	for _, in := range h.Instrs {
		if phi, ok := in.(*ssa.Phi); ok {
			phis = append(phis, phi)
		} else {
			break
		}
	}
	entryVals := map[*ssa.Phi]Val{}
	for _, phi := range phis {
		entryVals[phi] = phiVal(phi)
	}
	if ex.discover {
		// nested loop inside a probe: run its body once as well, without cutting
		for _, phi := range phis {
			fr.vals[phi] = entryVals[phi]
		}
		return pc
	}
	// candidate invariants (evaluated lazily against a phi assignment and a state)
	lcs := ex.loopCandidates(fr, h, phis, entryVals, cur)
	fr.loopCands()[h] = lcs
	// entry obligations
	for _, phi := range phis {
		fr.vals[phi] = entryVals[phi]
	}
	entrySt := cur.clone()
	for _, lc := range lcs {
		g := lc.eval(ex.localEnv(fr, h, entrySt))
		ex.addLoopObl(fr, h, lc, "inv-entry", pc, g)
	}
	// havoc what one iteration writes (found by probing the body from the current state)
	limit := TS.n
	wl := ex.probeLoop(fr, h, cur, pc, entryVals)
	fr.guard = fr.guard // unchanged by the probe (it ran on a copy)
	var names []string
	seenN := map[string]bool{}
	for n := range wl.whole {
		if !seenN[n] {
			seenN[n] = true
			names = append(names, n)
		}
	}
	for n := range wl.refs {
		if !seenN[n] {
			seenN[n] = true
			names = append(names, n)
		}
	}
	sort.Strings(names)
	for _, name := range names {
		whole := wl.whole[name]
		for id, r := range wl.refs[name] {
			if r.id > limit {
				root := r
				for root.op == "app" && len(root.args) > 0 && (strings.HasPrefix(root.name, "sub$") || strings.HasPrefix(root.name, "elemref$")) {
					root = root.args[0]
				}
				if root.op == "var" && strings.HasPrefix(root.name, "obj$") && root.id > limit {
					// an object allocated by this very iteration: it does not exist at the loop head
					delete(wl.refs[name], id)
					continue
				}
				whole = true // written through a reference computed inside the loop
			}
		}
		srt, known := compSorts[name]
		if !known {
			continue
		}
		if whole || !strings.HasPrefix(srt, "(Array Ref") {
			ex.loopHavoc = true
			ex.havocComp(cur, name)
			ex.loopHavoc = false
			continue
		}
		var ids []int
		for id := range wl.refs[name] {
			ids = append(ids, id)
		}
		sort.Ints(ids)
		_, inner := arrParts(srt)
		c := ex.get(cur, name, srt)
		for _, id := range ids {
			c = Store(c, wl.refs[name][id], Fresh("lh$"+name, inner))
		}
		cur.comp[name] = c
		ex.noteWriteAt(name, nil)
	}
	{
		n := Fresh("now", SInt)
		ex.pendingAssume = append(ex.pendingAssume, IntOp("<=", cur.now, n))
		cur.now = n
	}
	for k := range cur.extra {
		if wl.extra[k] {
			cur.extra[k] = freshVal("x$"+k, cur.extyp[k])
		}
	}
	var assume []*Term
	for _, phi := range phis {
		nv := freshVal(fmt.Sprintf("%s$%s", phi.Name(), phi.Comment), phi.Type())
		fr.vals[phi] = nv
		assume = append(assume, ex.wfVal(phi.Type(), nv, cur.now))
	}
	for _, lc := range lcs {
		g := lc.eval(ex.localEnv(fr, h, cur))
		assume = append(assume, Implies(lc.c.Enable, g))
	}
	assume = append(assume, ex.pendingAssume...)
	ex.pendingAssume = nil
	headStates[fr][h] = cur.clone()
	return And(append([]*Term{pc}, assume...)...)
}

func (ex *Exec) havocCompAt(st *State, name string) {
	// havoc with the new clock installed afterwards (facts refer to the state clock at use)
	ex.havocComp(st, name)
}

var frameLoopCands = map[*Frame]map[*ssa.BasicBlock][]*loopCand{}

func (fr *Frame) loopCands() map[*ssa.BasicBlock][]*loopCand {
	m, ok := frameLoopCands[fr]
	if !ok {
		m = map[*ssa.BasicBlock][]*loopCand{}
		frameLoopCands[fr] = m
	}
	return m
}

func (ex *Exec) addLoopObl(fr *Frame, h *ssa.BasicBlock, lc *loopCand, kind string, pc, goal *Term) {
	if ex.discover {
		return
	}
	var tags []string
	if lc.c.User != nil {
		tags = lc.c.User.Tags
	}
	pos := h.Instrs[0].Pos()
	if fr.curBlk != nil && kind == "inv-pres" {
		for _, in := range fr.curBlk.Instrs {
			if in.Pos().IsValid() {
				pos = in.Pos()
			}
		}
	}
	o := &Obligation{Name: fmt.Sprintf("%s/%s[%s]", ex.loopKey(fr, h), kind, lc.c.Src), Fn: ex.P.relName(ex.root), Kind: kind, Pos: ex.posOf(pos), Desc: lc.c.Src, PC: pc, Goal: goal, Tags: tags, Clause: lc.c.User}
	ex.houdini = append(ex.houdini, &houdiniObl{o, lc.c})
}

// loopBack emits preservation obligations for the back edge p -> h.
func (ex *Exec) loopBack(fr *Frame, h, p *ssa.BasicBlock, e edgeInfo) {
	if ex.discover {
		return
	}
	pidx := -1
	for i, q := range h.Preds {
		if q == p {
			pidx = i
		}
	}
	// temporarily bind the phis to their back-edge values
	saved := map[*ssa.Phi]Val{}
	for _, in := range h.Instrs {
		phi, ok := in.(*ssa.Phi)
		if !ok {
			break
		}
		saved[phi] = fr.vals[phi]
	}
	newVals := map[*ssa.Phi]Val{}
	for phi := range saved {
		newVals[phi] = ex.val(fr, phi.Edges[pidx])
	}
	// decreases: evaluate at head (saved) and at back edge
	var decBefore []*Term
	decs := ex.decreasesFor(fr, h)
	for _, d := range decs {
		v, _ := ex.evalSpec(d.Expr, ex.localEnv(fr, h, ex.headState(fr, h)))
		decBefore = append(decBefore, v.(*Term))
	}
	for phi, v := range newVals {
		fr.vals[phi] = v
	}
	for _, lc := range fr.loopCands()[h] {
		g := lc.eval(ex.localEnv(fr, h, e.st))
		ex.addLoopObl(fr, h, lc, "inv-pres", e.pc, g)
	}
	for i, d := range decs {
		v, _ := ex.evalSpec(d.Expr, ex.localEnv(fr, h, e.st))
		after := v.(*Term)
		goal := And(BVCmp("bvsle", BVu(0, 64), decBefore[i]), BVCmp("bvslt", after, decBefore[i]))
		ex.addObl(fr, "decreases", h.Instrs[0].Pos(), e.pc, goal, d.Src, d.Tags, d)
	}
	for phi, v := range saved {
		fr.vals[phi] = v
	}
}

var headStates = map[*Frame]map[*ssa.BasicBlock]*State{}

func (ex *Exec) headState(fr *Frame, h *ssa.BasicBlock) *State {
	return headStates[fr][h]
}

func (ex *Exec) decreasesFor(fr *Frame, h *ssa.BasicBlock) []*Clause {
	if fr.ct == nil {
		return nil
	}
	var out []*Clause
	ord := loopOrdinal(h)
	for _, cl := range fr.ct.Clauses {
		if cl.Kind == "decreases" && cl.Loop == ord && cl.Expr != nil {
			out = append(out, cl)
		}
	}
	return out
}

// loopCandidates builds the invariant candidates of a loop: user clauses of the function's
// contract (offered to every loop where their names bind) and automatic range facts.
func (ex *Exec) loopCandidates(fr *Frame, h *ssa.BasicBlock, phis []*ssa.Phi, entry map[*ssa.Phi]Val, cur *State) []*loopCand {
	if headStates[fr] == nil {
		headStates[fr] = map[*ssa.BasicBlock]*State{}
	}
	var out []*loopCand
	key := ex.loopKey(fr, h)
	mk := func(src string, auto bool, user *Clause, eval func(env *SpecEnv) *Term) {
		c := &Candidate{Enable: Fresh("en$"+key, SBool), Src: src, Loop: key, Auto: auto, Alive: true, User: user}
		ex.cands = append(ex.cands, c)
		out = append(out, &loopCand{c, eval})
	}
	// automatic: integer phis relative to their (loop-invariant) entry value and to header bounds
	for _, phi := range phis {
		phi := phi
		w, signed, ok := intInfo(phi.Type())
		if !ok {
			continue
		}
		ev, isT := entry[phi].(*Term)
		if !isT {
			continue
		}
		_ = w
		ge, le := "bvuge", "bvule"
		if signed {
			ge, le = "bvsge", "bvsle"
		}
		dir := phiDirection(phi, h)
		if dir >= 0 {
			mk(fmt.Sprintf("%s >= entry", phiName(phi)), true, nil, func(env *SpecEnv) *Term {
				return BVCmp(ge, fr.vals[phi].(*Term), ev)
			})
		}
		if dir <= 0 {
			mk(fmt.Sprintf("%s <= entry", phiName(phi)), true, nil, func(env *SpecEnv) *Term {
				return BVCmp(le, fr.vals[phi].(*Term), ev)
			})
		}
		// bounds from comparisons against loop-invariant values anywhere in the loop body
		body := loopBody(h)
		for b := range body {
			for _, in := range b.Instrs {
				bo, ok := in.(*ssa.BinOp)
				if !ok {
					continue
				}
				var other ssa.Value
				var via ssa.Value
				if reaches(bo.X, phi) {
					other, via = bo.Y, bo.X
				} else if reaches(bo.Y, phi) {
					other, via = bo.X, bo.Y
				} else {
					continue
				}
				_ = via
				switch bo.Op {
				case token.LSS, token.LEQ, token.GTR, token.GEQ, token.NEQ, token.EQL:
				default:
					continue
				}
				if oi, isInstr := other.(ssa.Instruction); isInstr && body[oi.Block()] {
					continue // not loop invariant
				}
				if !types.Identical(under(other.Type()), under(phi.Type())) {
					continue
				}
				oth := other
				mk(fmt.Sprintf("%s <= %s", phiName(phi), oth.Name()), true, nil, func(env *SpecEnv) *Term {
					ov, ok := ex.val(fr, oth).(*Term)
					if !ok {
						return True
					}
					return BVCmp(le, fr.vals[phi].(*Term), ov)
				})
				mk(fmt.Sprintf("%s < %s", phiName(phi), oth.Name()), true, nil, func(env *SpecEnv) *Term {
					ov, ok := ex.val(fr, oth).(*Term)
					if !ok {
						return True
					}
					return Not(BVCmp(ge, fr.vals[phi].(*Term), ov))
				})
			}
		}
		if signed {
			mk(fmt.Sprintf("%s >= 0", phiName(phi)), true, nil, func(env *SpecEnv) *Term {
				return BVCmp("bvsge", fr.vals[phi].(*Term), BVu(0, bvWidth(fr.vals[phi].(*Term).sort)))
			})
			mk(fmt.Sprintf("%s >= -1", phiName(phi)), true, nil, func(env *SpecEnv) *Term {
				wd := bvWidth(fr.vals[phi].(*Term).sort)
				return BVCmp("bvsge", fr.vals[phi].(*Term), BVi(-1, wd))
			})
		}
	}
	// user candidates
	if fr.ct != nil {
		ord := loopOrdinal(h)
		for _, cl := range fr.ct.Clauses {
			if cl.Kind != "invariant" || cl.Expr == nil {
				continue
			}
			if cl.Loop >= 0 && cl.Loop != ord && !ex.P.houdiniAll {
				continue
			}
			cl := cl
			// does it bind here?
			if !ex.binds(cl.Expr, fr, h, cur) {
				continue
			}
			mk(cl.Src, false, cl, func(env *SpecEnv) *Term {
				v, _ := ex.evalSpec(cl.Expr, env)
				t, ok := v.(*Term)
				if !ok || t.sort != SBool {
					return True
				}
				return t
			})
		}
	}
	return out
}

func phiName(phi *ssa.Phi) string {
	if phi.Comment != "" {
		return phi.Comment
	}
	return phi.Name()
}

// reaches: v is phi or phi plus/minus a constant (one step).
func reaches(v ssa.Value, phi *ssa.Phi) bool {
	if v == phi {
		return true
	}
	if bo, ok := v.(*ssa.BinOp); ok && (bo.Op == token.ADD || bo.Op == token.SUB) {
		if bo.X == phi {
			if _, c := bo.Y.(*ssa.Const); c {
				return true
			}
		}
	}
	return false
}

func (ex *Exec) binds(e *SExpr, fr *Frame, h *ssa.BasicBlock, st *State) (ok bool) {
	defer func() {
		if r := recover(); r != nil {
			ok = false
		}
	}()
	env := ex.localEnv(fr, h, st)
	env.probe = true
	ex.evalSpec(e, env)
	return true
}

// ------------------------------------------------------------------ sorting helper

func sortObls(os []*Obligation) {
	sort.SliceStable(os, func(i, j int) bool { return os[i].Name < os[j].Name })
}

// phiDirection: +1 if every back-edge value is phi plus a positive constant, -1 if minus, 0 unknown.
func phiDirection(phi *ssa.Phi, h *ssa.BasicBlock) int {
	dir := 0
	first := true
	for i, p := range h.Preds {
		if !isBackEdge(p, h) {
			continue
		}
		d := 0
		if bo, ok := phi.Edges[i].(*ssa.BinOp); ok && bo.X == ssa.Value(phi) {
			if c, ok := bo.Y.(*ssa.Const); ok && c.Value != nil {
				if v, exact := constant.Int64Val(constant.ToInt(c.Value)); exact {
					switch {
					case bo.Op == token.ADD && v > 0, bo.Op == token.SUB && v < 0:
						d = 1
					case bo.Op == token.ADD && v < 0, bo.Op == token.SUB && v > 0:
						d = -1
					}
				}
			}
		}
		if first {
			dir, first = d, false
		} else if dir != d {
			dir = 0
		}
	}
	return dir
}
