package main

import (
	"fmt"
	"os"
	"runtime/debug"
	"go/types"
	"sort"
	"strings"

	"golang.org/x/tools/go/ssa"
)

type FuncResult struct {
	Fn         string
	Key        string
	Obls       []*Obligation
	Covers     []*Obligation
	Notes      []string
	Inlined    []string
	UsedCts    []string
	Unchecked  []string
	Assumes    []string
	Candidates []*Candidate
	BindErrors []string
	Loops      int
	Engine     string // engine fault, if any
	houdini    []*houdiniObl
}

func newExec(P *Prog, fn *ssa.Function) *Exec {
	return &Exec{P: P, root: fn, notes: map[string]bool{}, written: map[string]bool{}, localCells: map[string][]*Term{}, revealed: map[string]bool{}, tagFacts: map[int]*Term{}, immutable: map[string][]*Term{},
		oblCount: map[string]int{}, inlined: map[string]bool{}, usedCts: map[string]bool{}, unchecked: map[string]bool{}, assumes: map[string]bool{}, atomicOps: map[string]bool{}}
}

// runInit symbolically executes a package initialiser once, to learn the values of its
// constant globals and the content of the objects they refer to.
func (P *Prog) runInit(pkg *ssa.Package) *initInfo {
	if ii, ok := P.initDone[pkg.Pkg.Path()]; ok {
		return ii
	}
	P.initDone[pkg.Pkg.Path()] = nil // cycle guard
	fn := pkg.Func("init")
	if fn == nil || fn.Blocks == nil {
		return nil
	}
	ex := newExec(P, fn)
	ex.initMode = true
	ii := &initInfo{}
	func() {
		defer func() {
			if r := recover(); r != nil {
				if os.Getenv("GVC_DEBUG") != "" {
					fmt.Fprintf(os.Stderr, "init of %s failed: %v\n%s\n", pkg.Pkg.Path(), r, debug.Stack())
				}
				ii = nil
			}
		}()
		st := newState()
		st.now = IntLit(int64(len(P.initDone)) * 1000000)
		fr := ex.newFrame(fn, nil, nil, st, nil)
		fr.root = true
		base := int64(len(P.initDone)) * 1000000
		_, out, pc := ex.run(fr, st, True)
		// initialisers of different packages get disjoint intervals of the allocation clock
		ii.final, ii.pc = out, And(pc, IntOp("<", out.now, IntLit(base+1000000)))
	}()
	if ii == nil {
		return nil
	}
	// Houdini candidates of init-time loops: disable all (sound: weaker assumptions)
	for _, c := range ex.cands {
		ii.pc = And(ii.pc, Not(c.Enable))
	}
	// when the initialiser is straight-line its path condition is a conjunction of assumptions about
	// fresh values: split it, so that a function only drags in what concerns the globals it uses
	if ii.pc.op == "and" {
		ii.conj = ii.pc.args
	} else {
		ii.conj = []*Term{ii.pc}
	}
	ii.straight = true
	for _, c := range ii.conj {
		if c.op == "or" {
			ii.straight = false
		}
	}
	// content of init-allocated objects
	for name, t := range ii.final.comp {
		if strings.HasPrefix(name, "glob$") {
			continue
		}
		base := t
		for base.op == "store" {
			idx := base.args[1]
			if idx.op == "var" && (strings.HasPrefix(idx.name, "obj$") || strings.HasSuffix(idx.name, "$obj")) {
				h0 := P.initialVar(name)
				if ii.straight {
					idx.AddFact(Eq(Select(h0, idx), Select(t, idx)))
				} else {
					// attached lazily (constGlobalVal) to the objects a used global refers to
					if ii.content == nil {
						ii.content = map[int][]*Term{}
					}
					ii.content[idx.id] = append(ii.content[idx.id], Implies(ii.pc, Eq(Select(h0, idx), Select(t, idx))))
				}
				P.immutable[name] = append(P.immutable[name], idx)
			}
			base = base.args[0]
		}
	}
	P.initDone[pkg.Pkg.Path()] = ii
	return ii
}

func (P *Prog) initialVar(name string) *Term {
	return Var("H0$"+name, compSorts[name])
}

// constGlobalVal returns the init-time value of a constant global, or nil.
func (ex *Exec) constGlobalVal(gname string, t types.Type) Val {
	if ex.initMode {
		return nil
	}
	g := ex.P.globByName[gname]
	if g == nil || !ex.P.isConstGlobal(g) {
		return nil
	}
	ii := ex.P.runInit(g.Pkg)
	if ii == nil || aggregate(t) {
		return nil
	}
	ls := leaves(t)
	ts := make([]*Term, len(ls))
	for i, l := range ls {
		v, ok := ii.final.comp[gname+l.path]
		if !ok {
			return nil // never initialised: zero value
		}
		ts[i] = v
		if !v.isLit() && v != True && v != False && v != Null {
			v.AddFact(ii.relevant(v))
			for _, f := range ii.content[v.id] {
				v.AddFact(f)
			}
		}
	}
	ex.assumes["package-level variable "+strings.TrimPrefix(gname, "glob$")+" is never reassigned and the objects it refers to are immutable"] = true
	for name, refs := range ex.P.immutable {
		ex.immutable[name] = refs
	}
	return unflat(t, ts)
}

// verifyFunction generates all obligations of fn against its contract.
func (P *Prog) verifyFunction(fn *ssa.Function, safetyTags []string) (res *FuncResult) {
	res = &FuncResult{Fn: P.relName(fn), Key: fn.String()}
	ex := newExec(P, fn)
	ex.rct = P.contractFor(fn)
	ex.safetyTags = safetyTags
	if ex.rct != nil && len(ex.rct.Safety) > 0 {
		ex.safetyTags = ex.rct.Safety
	}
	if ex.rct != nil {
		for _, r := range ex.rct.Reveal {
			ex.revealed[r] = true
		}
	}
	defer func() {
		if r := recover(); r != nil {
			if se, ok := r.(specError); ok {
				res.BindErrors = append(res.BindErrors, se.msg)
				return
			}
			res.Engine = fmt.Sprintf("engine fault in %s: %v", fn.String(), r)
			if P.debug {
				panic(r)
			}
		}
	}()
	if fn.Blocks == nil {
		res.Engine = "no body"
		return
	}
	nb := len(P.bindErrors)
	mkEntry := func() (*Frame, *State, *Term) {
		st := newState()
		st.now = Var("now0", SInt)
		var args []Val
		var wf []*Term
		wf = append(wf, IntOp("<", IntLit(1000000000000), st.now))
		for i, p := range fn.Params {
			v := varVal("p$"+p.Name(), p.Type())
			args = append(args, v)
			wf = append(wf, ex.wfVal(p.Type(), v, st.now))
			if i == 0 && fn.Signature.Recv() != nil {
				if _, isPtr := under(p.Type()).(*types.Pointer); isPtr {
					wf = append(wf, Neq(v.(*Term), Null))
					ex.assumes["method receivers are non-nil"] = true
				}
			}
		}
		var bind []Val
		for _, fv := range fn.FreeVars {
			v := varVal("fv$"+fv.Name(), fv.Type())
			bind = append(bind, v)
			wf = append(wf, ex.wfVal(fv.Type(), v, st.now), Neq(v.(*Term), Null))
		}
		fr := ex.newFrame(fn, args, bind, st, nil)
		fr.root = true
		pc := And(wf...)
		// preconditions
		if ex.rct != nil {
			ict := ex.ifaceContract()
			if ict != nil {
				ienv := ex.contractEnvFor(ict, fr, st, nil)
				for _, cl := range ict.Clauses {
					if cl.Kind == "requires" && cl.Expr != nil {
						pc = And(pc, ex.evalBool(cl.Expr, ienv))
					}
				}
			}
			env := ex.contractEnv(fr, st, nil)
			for _, cl := range ex.rct.Clauses {
				if cl.Kind == "requires" && cl.Expr != nil {
					g := ex.evalBool(cl.Expr, env)
					isInv := false
					for _, t := range cl.Tags {
						if t == "inv" {
							isInv = true
						}
					}
					if isInv {
						ex.assumes["module invariant of "+ex.P.relName(fn)+" (established by Provision, assumed here): "+cl.Src] = true
					}
					if ict != nil && !isInv {
						// refinement: the implementation may not demand more than the interface grants
						ex.addObl(fr, "refine-pre", fn.Pos(), pc, g, "interface precondition implies: "+cl.Src, ex.rct.ImplTags, cl)
					}
					pc = And(pc, g)
				}
			}
			if len(ex.pendingAssume) > 0 {
				pc = And(append([]*Term{pc}, ex.pendingAssume...)...)
				ex.pendingAssume = nil
			}
			// dynamic types fixed by the precondition (istype(x, T))
			if pc.op == "and" {
				for _, c := range pc.args {
					if c.op == "=" && c.args[0].sort == SInt {
						a, b := c.args[0], c.args[1]
						if a.isLit() && b.op == "var" {
							ex.tagFacts[b.id] = a
						} else if b.isLit() && a.op == "var" {
							ex.tagFacts[a.id] = b
						}
					}
				}
			}
		}
		return fr, st, pc
	}
	fr, st, pc := mkEntry()
	pc0 := pc
	_, _, outpc := ex.run(fr, st, pc)
	// vacuity covers
	res.Covers = append(res.Covers, &Obligation{Name: res.Fn + "/cover-requires", Fn: res.Fn, Kind: "cover", PC: pc0, Goal: False, Desc: "preconditions are satisfiable"})
	res.Covers = append(res.Covers, &Obligation{Name: res.Fn + "/cover-return", Fn: res.Fn, Kind: "cover", PC: outpc, Goal: False, Desc: "some return is reachable"})
	res.Covers = append(res.Covers, ex.covers...)
	res.Obls = ex.obls
	for _, o := range ex.obls {
		oblCtx[o] = oblContext{ex, fr, ex.cands}
	}
	res.houdini = ex.houdini
	res.Candidates = ex.cands
	res.Notes = sortedKeys(ex.notes)
	res.Inlined = sortedKeys(ex.inlined)
	res.UsedCts = sortedKeys(ex.usedCts)
	res.Unchecked = sortedKeys(ex.unchecked)
	res.Assumes = sortedKeys(ex.assumes)
	res.BindErrors = append(res.BindErrors, P.bindErrors[nb:]...)
	for _, b := range fn.Blocks {
		if isLoopHeader(b) {
			res.Loops++
		}
	}
	return res
}


// contractEnv: environment for the root function's own contract.
func (ex *Exec) contractEnv(fr *Frame, cur *State, rets []Val) *SpecEnv {
	return ex.contractEnvFor(ex.rct, fr, cur, rets)
}

// ifaceContract: the interface-method contract the root function declares to refine.
func (ex *Exec) ifaceContract() *Contract {
	if ex.rct == nil || ex.rct.Implements == "" {
		return nil
	}
	ict, ok := ex.P.cs.ByKey[ex.rct.Implements]
	if !ok {
		specFail("implements %s: no such contract", ex.rct.Implements)
	}
	return ict
}

func (ex *Exec) contractEnvFor(ct *Contract, fr *Frame, cur *State, rets []Val) *SpecEnv {
	env := &SpecEnv{ex: ex, pkg: ct.Pkg, vars: map[string]specBinding{}, cur: cur, old: fr.entry, slSt: map[*SliceV]*State{}}
	sig := fr.fn.Signature
	args := fr.args
	if fr.fn.Parent() != nil || len(fr.fn.FreeVars) > 0 {
		// closure: parameters only (free variables are resolved by name through lookupLocal)
		env.fr, env.at = fr, fr.fn.Blocks[0]
	}
	ex.bindParams(ct, sig, args, env)
	if rets != nil {
		ex.bindResults(ct, sig, rets, env)
	}
	return env
}

// checkPost emits the postcondition and frame obligations at a return of the root function.
func (ex *Exec) checkPost(fr *Frame, ret *ssa.Return, st *State, pc *Term, vals []Val) {
	if ex.rct == nil || ex.discover {
		return
	}
	env := ex.contractEnv(fr, st, vals)
	if fr.root {
		ex.curRets = vals
		defer func() { ex.curRets = nil }()
	}
	for _, cl := range ex.rct.Clauses {
		if cl.Kind != "ensures" || cl.Expr == nil {
			continue
		}
		if hasStr(cl.Tags, "ghost") {
			// definitional update of ghost state: ghost variables are only written by contracts
			ex.assumes["ghost update declared by the contract of "+ex.P.relName(fr.fn)+": "+cl.Src] = true
			continue
		}
		if hasStr(cl.Tags, "assumed") {
			// assumed at call sites, not proved from the body: reported as an assumption
			ex.assumes["ASSUMED postcondition of "+ex.P.relName(fr.fn)+" (not proved from its body): "+cl.Src] = true
			continue
		}
		g := ex.evalBool(cl.Expr, env)
		extra := ex.pendingAssume
		ex.pendingAssume = nil
		ex.addObl(fr, "post", ret.Pos(), And(append([]*Term{pc}, extra...)...), g, cl.Src, cl.Tags, cl)
	}
	if ex.rct.AssignsSet {
		ex.checkFrame(ex.rct, ex.rct.AssignsTags, fr, ret, st, pc)
	}
	if ict := ex.ifaceContract(); ict != nil {
		ienv := ex.contractEnvFor(ict, fr, st, vals)
		for _, cl := range ict.Clauses {
			if cl.Kind != "ensures" || cl.Expr == nil {
				continue
			}
			g := ex.evalBool(cl.Expr, ienv)
			extra := ex.pendingAssume
			ex.pendingAssume = nil
			ncl := *cl
			ncl.Name = ""
			ex.addObl(fr, "refine-post", ret.Pos(), And(append([]*Term{pc}, extra...)...), g, "interface postcondition: "+cl.Src, ex.rct.ImplTags, &ncl)
		}
		if ict.AssignsSet {
			ex.checkFrame(ict, ex.rct.ImplTags, fr, ret, st, pc)
		}
	}
}

// checkFrame: every pre-existing location outside the assigns clause is unchanged.
func (ex *Exec) checkFrame(ct *Contract, tags []string, fr *Frame, ret *ssa.Return, st *State, pc *Term) {
	envOld := ex.contractEnvFor(ct, fr, fr.entry, nil)
	var locs []Loc
	for _, a := range ct.Assigns {
		locs = append(locs, ex.evalLocs(a, envOld)...)
	}
	written := ex.written
	mods := map[string]bool{}
	for _, m := range ct.Modifies {
		mods[m] = true
	}
	kind := "frame"
	if ct != ex.rct {
		kind = "refine-frame"
	}
	for _, name := range sortedKeys(written) {
		if strings.HasPrefix(name, "@") || mods[name] {
			continue
		}
		if strings.HasPrefix(name, "ghost:") {
			gn := strings.TrimPrefix(name, "ghost:")
			if i := strings.Index(gn, "."); i >= 0 {
				gn = gn[:i]
			}
			if g := ex.P.cs.Ghosts[gn]; g != nil && g.History {
				continue // a history ghost is specification state: no function is framed against it
			}
		}
		sort := compSorts[name]
		final := ex.get(st, name, sort)
		initial := ex.initialComp(name, sort)
		if final == initial {
			continue
		}
		var goal *Term
		if !strings.HasPrefix(sort, "(Array Ref") {
			// global scalar
			allowed := false
			for _, l := range locs {
				if l.global && l.comp == name {
					allowed = true
				}
			}
			if allowed {
				continue
			}
			goal = Eq(final, initial)
		} else {
			r := Fresh("frame$r", SRef)
			pre := []*Term{IntOp("<", birth(r), fr.entry.now)}
			_, inner := arrParts(sort)
			isElem := strings.HasPrefix(name, "elem:")
			var k *Term
			if isElem {
				k = Fresh("frame$k", BV(64))
			}
			for _, l := range locs {
				if l.comp != name {
					continue
				}
				if l.ref == nil {
					pre = append(pre, False)
				} else if l.lo == nil || !isElem {
					pre = append(pre, Neq(r, l.ref))
				} else {
					pre = append(pre, Or(Neq(r, l.ref), BVCmp("bvslt", k, l.lo), BVCmp("bvsle", l.hi, k)))
				}
			}
			if isElem && strings.HasPrefix(inner, "(Array") {
				goal = Implies(And(pre...), Eq(Select(Select(final, r), k), Select(Select(initial, r), k)))
			} else {
				goal = Implies(And(pre...), Eq(Select(final, r), Select(initial, r)))
			}
		}
		ex.addObl(fr, kind, ret.Pos(), pc, goal, "only the assigns clause is modified: "+name, tags, &Clause{Kind: "assigns", Src: "frame " + name, Name: kind + "[" + name + "]"})
	}
}

func sortStrings(m map[string]bool) []string {
	var out []string
	for k := range m {
		out = append(out, k)
	}
	sort.Strings(out)
	return out
}

func hasStr(xs []string, x string) bool {
	for _, y := range xs {
		if y == x {
			return true
		}
	}
	return false
}

// relevant: the conjuncts of a straight-line initialiser's path condition that concern v: those
// that mention one of v's variables, plus every conjunct over scalars only (allocation clocks,
// births, type tags), which orders the objects of the package among themselves.
func (ii *initInfo) relevant(v *Term) *Term {
	seed := map[int]bool{}
	var collect func(t *Term, into map[int]bool, seen map[int]bool)
	collect = func(t *Term, into map[int]bool, seen map[int]bool) {
		if seen[t.id] {
			return
		}
		seen[t.id] = true
		if t.op == "var" {
			into[t.id] = true
		}
		for _, a := range t.args {
			collect(a, into, seen)
		}
	}
	collect(v, seed, map[int]bool{})
	var out []*Term
	for _, c := range ii.conj {
		vars := map[int]bool{}
		collect(c, vars, map[int]bool{})
		hit, arrays := false, false
		for id := range vars {
			if seed[id] {
				hit = true
			}
		}
		var hasArr func(t *Term, seen map[int]bool) bool
		hasArr = func(t *Term, seen map[int]bool) bool {
			if seen[t.id] {
				return false
			}
			seen[t.id] = true
			if strings.HasPrefix(t.sort, "(Array") || t.op == "forall" || t.op == "exists" {
				return true
			}
			for _, a := range t.args {
				if hasArr(a, seen) {
					return true
				}
			}
			return false
		}
		arrays = hasArr(c, map[int]bool{})
		if hit || !arrays {
			out = append(out, c)
		}
	}
	return And(out...)
}
