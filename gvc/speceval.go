package main

// Evaluation of contract expressions to SMT terms in a given environment and pair of states.

import (
	"fmt"
	"sort"
	"go/constant"
	"go/token"
	"go/types"
	"math/big"
	"strconv"
	"strings"

	"golang.org/x/tools/go/ssa"
)

type specBinding struct {
	val  Val
	typ  types.Type
	cell *Term // a captured variable of a closure: read from its cell in the state being evaluated
}

type untyped struct {
	v *big.Int
}

type nilVal struct{}

type SpecEnv struct {
	ex    *Exec
	pkg   string
	vars  map[string]specBinding
	cur   *State
	old   *State
	fr    *Frame
	at    *ssa.BasicBlock
	atIdx int
	probe bool
	slSt  map[*SliceV]*State
	depth int
}

func (env *SpecEnv) child() *SpecEnv {
	n := *env
	n.vars = map[string]specBinding{}
	for k, v := range env.vars {
		n.vars[k] = v
	}
	return &n
}

type specError struct{ msg string }

func specFail(f string, a ...interface{}) {
	panic(specError{fmt.Sprintf(f, a...)})
}

func (ex *Exec) localEnv(fr *Frame, at *ssa.BasicBlock, st *State) *SpecEnv {
	pkg := ""
	if fr.fn.Pkg != nil {
		pkg = fr.fn.Pkg.Pkg.Path()
	} else if fr.ct != nil {
		pkg = fr.ct.Pkg
	}
	if fr.ct != nil && fr.ct.Pkg != "" {
		pkg = fr.ct.Pkg
	}
	return &SpecEnv{ex: ex, pkg: pkg, vars: map[string]specBinding{}, cur: st, old: fr.entry, fr: fr, at: at, atIdx: -1, slSt: map[*SliceV]*State{}}
}

// resolveType turns a type string of the contract language into a go/types type.
func (ex *Exec) resolveType(s string, pkg string) types.Type {
	s = strings.TrimSpace(s)
	switch {
	case strings.HasPrefix(s, "*"):
		return types.NewPointer(ex.resolveType(s[1:], pkg))
	case strings.HasPrefix(s, "[]"):
		return types.NewSlice(ex.resolveType(s[2:], pkg))
	case strings.HasPrefix(s, "["):
		i := strings.Index(s, "]")
		n, _ := strconv.Atoi(s[1:i])
		return types.NewArray(ex.resolveType(s[i+1:], pkg), int64(n))
	}
	if strings.HasPrefix(s, "map[") {
		depth := 0
		for i := 3; i < len(s); i++ {
			if s[i] == '[' {
				depth++
			} else if s[i] == ']' {
				depth--
				if depth == 0 {
					return types.NewMap(ex.resolveType(s[4:i], pkg), ex.resolveType(s[i+1:], pkg))
				}
			}
		}
	}
	switch s {
	case "unsafe.Pointer":
		return types.Typ[types.UnsafePointer]
	case "byte":
		return types.Typ[types.Uint8]
	case "rune":
		return types.Typ[types.Int32]
	case "error":
		return types.Universe.Lookup("error").Type()
	case "any":
		return types.Universe.Lookup("any").Type()
	}
	for _, b := range types.Typ {
		if b.Name() == s {
			return b
		}
	}
	if i := strings.LastIndex(s, "."); i >= 0 {
		p, n := s[:i], s[i+1:]
		if tp := ex.P.findPkg(p); tp != nil {
			if o := tp.Scope().Lookup(n); o != nil {
				if tn, ok := o.(*types.TypeName); ok {
					return tn.Type()
				}
			}
		}
		specFail("unknown type %s", s)
	}
	if tp := ex.P.findPkg(pkg); tp != nil {
		if o := tp.Scope().Lookup(s); o != nil {
			if tn, ok := o.(*types.TypeName); ok {
				return tn.Type()
			}
		}
	}
	specFail("unknown type %s (package %s)", s, pkg)
	return nil
}

func (ex *Exec) evalBool(e *SExpr, env *SpecEnv) *Term {
	v, _ := ex.evalSpec(e, env)
	t, ok := v.(*Term)
	if !ok || t.sort != SBool {
		specFail("boolean expected: %s", e.String())
	}
	return t
}

// coerce an untyped constant to type t.
func (ex *Exec) coerce(v Val, t types.Type) Val {
	switch x := v.(type) {
	case untyped:
		if w, _, ok := intInfo(t); ok {
			return BVLit(x.v, w)
		}
		specFail("cannot use integer constant as %s", t)
	case nilVal:
		return zeroVal(t)
	}
	return v
}

func (ex *Exec) evalSpec(e *SExpr, env *SpecEnv) (Val, types.Type) {
	switch e.Op {
	case "num":
		bi, ok := new(big.Int).SetString(e.Name, 0)
		if !ok {
			specFail("bad number %s", e.Name)
		}
		return untyped{bi}, nil
	case "char":
		s, err := strconv.Unquote(e.Name)
		if err != nil || len(s) == 0 {
			specFail("bad char %s", e.Name)
		}
		return untyped{big.NewInt(int64([]rune(s)[0]))}, nil
	case "str":
		s, err := strconv.Unquote(e.Name)
		if err != nil {
			specFail("bad string %s", e.Name)
		}
		return ex.strLit(s), types.Typ[types.String]
	case "ident":
		return ex.evalIdent(e.Name, env)
	case "old":
		n := *env
		n.cur = env.old
		return ex.evalSpec(e.Args[0], &n)
	case "!":
		return Not(ex.evalBool(e.Args[0], env)), types.Typ[types.Bool]
	case "neg":
		v, t := ex.evalSpec(e.Args[0], env)
		if u, ok := v.(untyped); ok {
			return untyped{new(big.Int).Neg(u.v)}, nil
		}
		return BVNeg(v.(*Term)), t
	case "^u":
		v, t := ex.evalSpec(e.Args[0], env)
		return BVNot(v.(*Term)), t
	case "deref":
		v, t := ex.evalSpec(e.Args[0], env)
		pt, ok := under(t).(*types.Pointer)
		if !ok {
			specFail("deref of non-pointer")
		}
		return ex.loadPtr(env.cur, pt.Elem(), v.(*Term)), pt.Elem()
	case "&&":
		return And(ex.evalBool(e.Args[0], env), ex.evalBool(e.Args[1], env)), types.Typ[types.Bool]
	case "||":
		return Or(ex.evalBool(e.Args[0], env), ex.evalBool(e.Args[1], env)), types.Typ[types.Bool]
	case "==>":
		return Implies(ex.evalBool(e.Args[0], env), ex.evalBool(e.Args[1], env)), types.Typ[types.Bool]
	case "<==>":
		return Eq(ex.evalBool(e.Args[0], env), ex.evalBool(e.Args[1], env)), types.Typ[types.Bool]
	case "forall", "exists":
		n := env.child()
		var bvs []*Term
		for _, v := range e.Vars {
			t := ex.resolveType(v.Type, env.pkg)
			ls := leaves(t)
			if len(ls) != 1 {
				specFail("quantified variable %s must be scalar", v.Name)
			}
			b := Bound(v.Name, ls[0].sort)
			bvs = append(bvs, b)
			n.vars[v.Name] = specBinding{val: b, typ: t}
		}
		body := ex.evalBool(e.Args[0], n)
		// bounded expansion: forall k :: lo <= k && k < hi ==> P with literal bounds
		if len(bvs) == 1 {
			if r, ok := expandBounded(e.Op, bvs[0], body); ok {
				return r, types.Typ[types.Bool]
			}
		}
		if e.Op == "forall" {
			if len(bvs) == 1 && bvs[0].sort == BV(64) {
				if nv, nb, pats := reindexQuant(bvs[0], body); nb != nil {
					return Forall([]*Term{nv}, nb, pats...), types.Typ[types.Bool]
				}
			}
			return Forall(bvs, body), types.Typ[types.Bool]
		}
		if len(bvs) == 1 && bvs[0].sort == BV(64) {
			if nv, nb, _ := reindexQuant(bvs[0], body); nb != nil {
				return Exists([]*Term{nv}, nb), types.Typ[types.Bool]
			}
		}
		return Exists(bvs, body), types.Typ[types.Bool]
	case "sel":
		return ex.evalSel(e, env)
	case "index":
		return ex.evalIndex(e, env)
	case "slice":
		return ex.evalSlice(e, env)
	case "call":
		return ex.evalCall(e, env)
	case "conv":
		t := ex.resolveType(e.Name, env.pkg)
		v, ft := ex.evalSpec(e.Args[0], env)
		if _, ok := v.(nilVal); ok {
			return zeroVal(t), t
		}
		return ex.convertVal(ft, t, v, env.cur), t
	case "assert_type":
		t := ex.resolveType(e.Name, env.pkg)
		v, _ := ex.evalSpec(e.Args[0], env)
		iv := ex.asIface(v)
		return unbox(t, iv.Data), t
	case "==", "!=", "<", "<=", ">", ">=", "+", "-", "*", "/", "%", "<<", ">>", "&", "|", "^", "&^":
		return ex.evalBin(e, env)
	}
	specFail("unsupported spec expression %s", e.String())
	return nil, nil
}

// expandBounded instantiates a quantifier whose body is `lo <= k && k < hi ==> P` with small literal bounds.
func expandBounded(q string, k *Term, body *Term) (*Term, bool) {
	if q != "forall" || body.op != "=>" {
		return nil, false
	}
	guard, p := body.args[0], body.args[1]
	var conj []*Term
	if guard.op == "and" {
		conj = guard.args
	} else {
		conj = []*Term{guard}
	}
	var lo, hi *big.Int
	w := bvWidth(k.sort)
	if w == 0 {
		return nil, false
	}
	for _, c := range conj {
		switch {
		case (c.op == "bvsle" || c.op == "bvule") && c.args[1] == k && c.args[0].isLit():
			lo = toSigned(c.args[0].val, w)
		case (c.op == "bvslt" || c.op == "bvult") && c.args[0] == k && c.args[1].isLit():
			hi = toSigned(c.args[1].val, w)
		case (c.op == "bvsle" || c.op == "bvule") && c.args[0] == k && c.args[1].isLit():
			hi = new(big.Int).Add(toSigned(c.args[1].val, w), big.NewInt(1))
		case c.op == "not" && (c.args[0].op == "bvsle" || c.args[0].op == "bvule") && c.args[0].args[0] == k && c.args[0].args[1].isLit():
			// !(k <= c)  ==  k > c
			lo = new(big.Int).Add(toSigned(c.args[0].args[1].val, w), big.NewInt(1))
		case c.op == "not" && (c.args[0].op == "bvslt" || c.args[0].op == "bvult") && c.args[0].args[0] == k && c.args[0].args[1].isLit():
			lo = toSigned(c.args[0].args[1].val, w)
		default:
			return nil, false
		}
	}
	if lo == nil || hi == nil {
		return nil, false
	}
	n := new(big.Int).Sub(hi, lo)
	if n.Sign() <= 0 {
		return True, true
	}
	if n.Cmp(big.NewInt(64)) > 0 {
		return nil, false
	}
	var out []*Term
	for i := new(big.Int).Set(lo); i.Cmp(hi) < 0; i = new(big.Int).Add(i, big.NewInt(1)) {
		out = append(out, Subst(p, map[int]*Term{k.id: BVLit(i, w)}))
	}
	return And(out...), true
}

func (ex *Exec) evalIdent(name string, env *SpecEnv) (Val, types.Type) {
	if b, ok := env.vars[name]; ok {
		if b.cell != nil {
			return ex.loadPtr(env.cur, b.typ, b.cell), b.typ
		}
		return b.val, b.typ
	}
	switch name {
	case "true":
		return True, types.Typ[types.Bool]
	case "false":
		return False, types.Typ[types.Bool]
	case "nil":
		return nilVal{}, nil
	}
	if env.fr != nil && env.at != nil {
		if v, t, ok := ex.lookupLocalAt(env.fr, name, env.at, env.atIdx, env.cur); ok {
			return v, t
		}
	}
	// package-level object
	if tp := ex.P.findPkg(env.pkg); tp != nil {
		if o := tp.Scope().Lookup(name); o != nil {
			return ex.evalObj(o, env)
		}
	}
	specFail("unknown identifier %s", name)
	return nil, nil
}

func (ex *Exec) evalObj(o types.Object, env *SpecEnv) (Val, types.Type) {
	switch x := o.(type) {
	case *types.Const:
		if x.Val().Kind() == constant.Int {
			bi, _ := new(big.Int).SetString(x.Val().ExactString(), 10)
			if b, ok := x.Type().(*types.Basic); ok && b.Info()&types.IsUntyped != 0 {
				return untyped{bi}, nil
			}
			w, _, _ := intInfo(x.Type())
			return BVLit(bi, w), x.Type()
		}
		if x.Val().Kind() == constant.String {
			return ex.strLit(constant.StringVal(x.Val())), types.Typ[types.String]
		}
		if x.Val().Kind() == constant.Bool {
			return Bool(constant.BoolVal(x.Val())), types.Typ[types.Bool]
		}
	case *types.Var:
		sp := ex.P.prog.Package(x.Pkg())
		if sp != nil {
			if g, ok := sp.Members[x.Name()].(*ssa.Global); ok {
				return ex.loadPtr(env.cur, x.Type(), ex.globalPtr(g)), x.Type()
			}
		}
	}
	specFail("cannot evaluate object %s", o.Name())
	return nil, nil
}

func (ex *Exec) evalSel(e *SExpr, env *SpecEnv) (Val, types.Type) {
	// package-qualified name?
	if e.Args[0].Op == "ident" {
		if _, bound := env.vars[e.Args[0].Name]; !bound {
			isLocal := false
			if env.fr != nil && env.at != nil {
				_, _, isLocal = ex.lookupLocalAt(env.fr, e.Args[0].Name, env.at, env.atIdx, env.cur)
			}
			if !isLocal {
				if tp := ex.P.findPkg(e.Args[0].Name); tp != nil {
					if o := tp.Scope().Lookup(e.Name); o != nil {
						return ex.evalObj(o, env)
					}
					specFail("unknown object %s.%s", e.Args[0].Name, e.Name)
				}
			}
		}
	}
	v, t := ex.evalSpec(e.Args[0], env)
	if t == nil {
		specFail("selector on untyped value %s", e.String())
	}
	obj, path, _ := types.LookupFieldOrMethod(t, true, ex.P.findPkg(env.pkg), e.Name)
	fld, ok := obj.(*types.Var)
	if !ok || !fld.IsField() {
		// unexported field of another package: search manually
		if st := structOf(derefT(t)); st != nil {
			for i := 0; i < st.NumFields(); i++ {
				if st.Field(i).Name() == e.Name {
					path = []int{i}
					fld = st.Field(i)
					ok = true
				}
			}
		}
		if !ok {
			specFail("no field %s in %s", e.Name, t)
		}
	}
	cur, ct := v, t
	for _, i := range path {
		if pt, isPtr := under(ct).(*types.Pointer); isPtr {
			owner := pt.Elem()
			ft := structOf(owner).Field(i).Type()
			if aggregate(ft) {
				cur, ct = subRef(owner, i, cur.(*Term)), types.NewPointer(ft)
				// an aggregate field selected for further selection stays a pointer
				continue
			}
			cur, ct = ex.loadField(env.cur, owner, i, cur.(*Term)), ft
		} else if sv, isS := cur.(*StructV); isS {
			cur, ct = sv.F[i], structOf(ct).Field(i).Type()
		} else {
			specFail("cannot select %s from %s", e.Name, ct)
		}
	}
	// a pointer to an aggregate field produced above: load it as a value when it is the final result
	if pt, isPtr := under(ct).(*types.Pointer); isPtr && aggregate(pt.Elem()) && types.Identical(pt.Elem(), fld.Type()) {
		if _, isArr := under(pt.Elem()).(*types.Array); isArr {
			return ex.loadAt(env.cur, pt.Elem(), cur.(*Term)), pt.Elem()
		}
		// keep struct-typed fields as pointers so that nested selection works
		return cur, ct
	}
	if sv, ok := cur.(*SliceV); ok {
		env.slSt[sv] = env.cur
	}
	return cur, ct
}

func derefT(t types.Type) types.Type {
	if p, ok := under(t).(*types.Pointer); ok {
		return p.Elem()
	}
	return t
}

func (env *SpecEnv) stateOf(sv *SliceV) *State {
	if s, ok := env.slSt[sv]; ok {
		return s
	}
	return env.cur
}

func (ex *Exec) evalIndex(e *SExpr, env *SpecEnv) (Val, types.Type) {
	v, t := ex.evalSpec(e.Args[0], env)
	iv, it := ex.evalSpec(e.Args[1], env)
	if sq, ok := v.(*SeqV); ok {
		return Select(sq.A, BVOp("bvadd", sq.Off, ex.toIdx(iv, it))), types.Typ[types.Uint8]
	}
	switch u := under(t).(type) {
	case *types.Slice:
		sv := v.(*SliceV)
		idx := ex.toIdx(iv, it)
		return ex.loadElem(env.stateOf(sv), u.Elem(), sv.Arr, BVOp("bvadd", sv.Off, idx)), u.Elem()
	case *types.Array:
		av := v.(*ArrV)
		idx := ex.toIdx(iv, it)
		ts := make([]*Term, len(av.A))
		for i, a := range av.A {
			ts[i] = Select(a, idx)
		}
		return unflat(u.Elem(), ts), u.Elem()
	case *types.Basic:
		if isString(u) {
			return ex.strByte(v.(*SliceV), ex.toIdx(iv, it)), types.Typ[types.Uint8]
		}
	case *types.Pointer:
		if at, ok := under(u.Elem()).(*types.Array); ok {
			return ex.loadElem(env.cur, at.Elem(), v.(*Term), ex.toIdx(iv, it)), at.Elem()
		}
	case *types.Map:
		// map lookup (value or zero)
		has, _, vals, ks, ok := mapComps(u)
		if !ok {
			specFail("unsupported map type in spec")
		}
		k := ex.mapKey(u.Key(), ex.coerce(iv, u.Key()))
		m := v.(*Term)
		present := Select(Select(ex.get(env.cur, has, ArrSort(SRef, ArrSort(ks, SBool))), m), k)
		ls := leaves(u.Elem())
		ts := make([]*Term, len(ls))
		for i, l := range ls {
			c := ex.get(env.cur, vals[i], ArrSort(SRef, ArrSort(ks, l.sort)))
			ts[i] = Ite(present, Select(Select(c, m), k), zeroOfSort(l.sort))
		}
		return unflat(u.Elem(), ts), u.Elem()
	}
	if sq, ok := v.(*SeqV); ok {
		return Select(sq.A, BVOp("bvadd", sq.Off, ex.toIdx(iv, it))), types.Typ[types.Uint8]
	}
	specFail("cannot index %s", e.Args[0].String())
	return nil, nil
}

// SeqV: a byte sequence captured with its content (ghost streams, snapshots).
type SeqV struct {
	A        *Term // Array BV64 BV8
	Off, Len *Term
}

func (ex *Exec) toIdx(v Val, t types.Type) *Term {
	if u, ok := v.(untyped); ok {
		return BVLit(u.v, 64)
	}
	_, s, _ := intInfo(t)
	return Resize(v.(*Term), 64, s)
}

func (ex *Exec) evalSlice(e *SExpr, env *SpecEnv) (Val, types.Type) {
	v, t := ex.evalSpec(e.Args[0], env)
	var lo, hi *Term
	if e.Args[1] != nil {
		a, at := ex.evalSpec(e.Args[1], env)
		lo = ex.toIdx(a, at)
	} else {
		lo = BVu(0, 64)
	}
	switch x := v.(type) {
	case *SliceV:
		if e.Args[2] != nil {
			a, at := ex.evalSpec(e.Args[2], env)
			hi = ex.toIdx(a, at)
		} else {
			hi = x.Len
		}
		r := &SliceV{Arr: x.Arr, Off: BVOp("bvadd", x.Off, lo), Len: BVOp("bvsub", hi, lo)}
		if x.Cap != nil {
			r.Cap = BVOp("bvsub", x.Cap, lo)
		}
		env.slSt[r] = env.stateOf(x)
		return r, t
	case *SeqV:
		if e.Args[2] != nil {
			a, at := ex.evalSpec(e.Args[2], env)
			hi = ex.toIdx(a, at)
		} else {
			hi = x.Len
		}
		return &SeqV{A: x.A, Off: BVOp("bvadd", x.Off, lo), Len: BVOp("bvsub", hi, lo)}, t
	}
	specFail("cannot slice %s", e.Args[0].String())
	return nil, nil
}

func (ex *Exec) evalBin(e *SExpr, env *SpecEnv) (Val, types.Type) {
	a, at := ex.evalSpec(e.Args[0], env)
	b, bt := ex.evalSpec(e.Args[1], env)
	ua, aU := a.(untyped)
	ub, bU := b.(untyped)
	boolT := types.Typ[types.Bool]
	if aU && bU {
		r := new(big.Int)
		switch e.Op {
		case "+":
			return untyped{r.Add(ua.v, ub.v)}, nil
		case "-":
			return untyped{r.Sub(ua.v, ub.v)}, nil
		case "*":
			return untyped{r.Mul(ua.v, ub.v)}, nil
		case "/":
			return untyped{r.Quo(ua.v, ub.v)}, nil
		case "%":
			return untyped{r.Rem(ua.v, ub.v)}, nil
		case "<<":
			return untyped{r.Lsh(ua.v, uint(ub.v.Uint64()))}, nil
		case ">>":
			return untyped{r.Rsh(ua.v, uint(ub.v.Uint64()))}, nil
		case "|":
			return untyped{r.Or(ua.v, ub.v)}, nil
		case "&":
			return untyped{r.And(ua.v, ub.v)}, nil
		case "==":
			return Bool(ua.v.Cmp(ub.v) == 0), boolT
		case "!=":
			return Bool(ua.v.Cmp(ub.v) != 0), boolT
		case "<":
			return Bool(ua.v.Cmp(ub.v) < 0), boolT
		case "<=":
			return Bool(ua.v.Cmp(ub.v) <= 0), boolT
		case ">":
			return Bool(ua.v.Cmp(ub.v) > 0), boolT
		case ">=":
			return Bool(ua.v.Cmp(ub.v) >= 0), boolT
		}
		specFail("constant operation %s", e.Op)
	}
	isShift := e.Op == "<<" || e.Op == ">>"
	if !isShift {
		if at == nil && bt != nil {
			a, at = ex.coerce(a, bt), bt
		} else if bt == nil && at != nil {
			b, bt = ex.coerce(b, at), at
		}
	} else if bU {
		w, _, _ := intInfo(at)
		b, bt = BVLit(ub.v, w), at
	}
	if at == nil {
		specFail("cannot type %s", e.String())
	}
	// sequences / slices / strings compared by content
	switch e.Op {
	case "==", "!=":
		if sa, sb, ok := ex.asSeqs(a, at, b, bt, env); ok {
			r := seqEq(sa, sb)
			if e.Op == "!=" {
				r = Not(r)
			}
			return r, boolT
		}
		// an interface compared with a concrete value: the concrete side is converted
		if at != nil && bt != nil {
			ai, bi := types.IsInterface(at), types.IsInterface(bt)
			if _, isIface := a.(*IfaceV); ai && !bi && isIface {
				if _, bIsIface := b.(*IfaceV); !bIsIface {
					b, bt = &IfaceV{Tag: typeTag(bt), Data: box(bt, b)}, at
				}
			} else if _, isIface := b.(*IfaceV); bi && !ai && isIface {
				if _, aIsIface := a.(*IfaceV); !aIsIface {
					a, at = &IfaceV{Tag: typeTag(at), Data: box(at, a)}, bt
				}
			}
		}
		r := ex.valEq(at, a, b)
		if e.Op == "!=" {
			r = Not(r)
		}
		return r, boolT
	}
	tok := map[string]token.Token{"+": token.ADD, "-": token.SUB, "*": token.MUL, "/": token.QUO, "%": token.REM, "<<": token.SHL, ">>": token.SHR, "&": token.AND, "|": token.OR, "^": token.XOR, "&^": token.AND_NOT, "<": token.LSS, "<=": token.LEQ, ">": token.GTR, ">=": token.GEQ}[e.Op]
	rt := at
	switch e.Op {
	case "<", "<=", ">", ">=":
		rt = boolT
	}
	pc := True
	return ex.binopVals(nil, tok, at, bt, rt, a, b, token.NoPos, env.cur, &pc), rt
}

// asSeqs views two values as byte sequences when at least one is a slice/SeqV (not nil comparison).
func (ex *Exec) asSeqs(a Val, at types.Type, b Val, bt types.Type, env *SpecEnv) (*SeqV, *SeqV, bool) {
	toSeq := func(v Val, t types.Type) *SeqV {
		switch x := v.(type) {
		case *SeqV:
			return x
		case *SliceV:
			if x.Cap == nil {
				return &SeqV{A: Select(STR, x.Arr), Off: x.Off, Len: x.Len}
			}
			sl, ok := under(t).(*types.Slice)
			if !ok {
				return nil
			}
			if bb, ok := under(sl.Elem()).(*types.Basic); !ok || bb.Kind() != types.Uint8 {
				return nil
			}
			n, s := elemComp(sl.Elem(), leaf{"", BV(8)})
			return &SeqV{A: Select(ex.get(env.stateOf(x), n, s), x.Arr), Off: x.Off, Len: x.Len}
		}
		return nil
	}
	_, aSeq := a.(*SeqV)
	_, bSeq := b.(*SeqV)
	sva, aSl := a.(*SliceV)
	svb, bSl := b.(*SliceV)
	if !(aSeq || bSeq || (aSl && bSl && (sva.Cap != nil || svb.Cap != nil))) {
		return nil, nil, false
	}
	// comparison with nil slice literal stays a nil comparison
	if (aSl && sva.Arr == Null && sva.Len == BVu(0, 64)) || (bSl && svb.Arr == Null && svb.Len == BVu(0, 64)) {
		return nil, nil, false
	}
	sa, sb := toSeq(a, at), toSeq(b, bt)
	if sa == nil || sb == nil {
		return nil, nil, false
	}
	return sa, sb, true
}

func seqEq(a, b *SeqV) *Term {
	lenEq := Eq(a.Len, b.Len)
	var n *Term
	if a.Len.isLit() {
		n = a.Len
	} else if b.Len.isLit() {
		n = b.Len
	}
	if n != nil && n.val.Int64() <= 64 {
		cs := []*Term{lenEq}
		for i := int64(0); i < n.val.Int64(); i++ {
			k := BVu(uint64(i), 64)
			cs = append(cs, Eq(Select(a.A, BVOp("bvadd", a.Off, k)), Select(b.A, BVOp("bvadd", b.Off, k))))
		}
		return And(cs...)
	}
	if a.A == b.A && a.Off == b.Off {
		return lenEq
	}
	k := Bound("k", BV(64))
	ea := Select(a.A, BVOp("bvadd", a.Off, k))
	body := Implies(And(BVCmp("bvsle", BVu(0, 64), k), BVCmp("bvslt", k, a.Len)), Eq(ea, Select(b.A, BVOp("bvadd", b.Off, k))))
	return And(lenEq, Forall([]*Term{k}, body))
}

func (ex *Exec) evalCall(e *SExpr, env *SpecEnv) (Val, types.Type) {
	fn := e.Args[0]
	args := e.Args[1:]
	intT := types.Typ[types.Int]
	boolT := types.Typ[types.Bool]
	if fn.Op == "ident" {
		switch fn.Name {
		case "len", "cap":
			v, t := ex.evalSpec(args[0], env)
			switch x := v.(type) {
			case *SliceV:
				if fn.Name == "cap" {
					return x.Cap, intT
				}
				return x.Len, intT
			case *SeqV:
				return x.Len, intT
			case *ArrV:
				return BVu(uint64(under(t).(*types.Array).Len()), 64), intT
			case *Term:
				if mt, ok := under(t).(*types.Map); ok {
					return ex.mapLen(env.cur, mt, x), intT
				}
			}
			specFail("len of %s", args[0].String())
		case "min", "max":
			a, at := ex.evalSpec(args[0], env)
			b, bt := ex.evalSpec(args[1], env)
			if at == nil {
				a, at = ex.coerce(a, bt), bt
			}
			b = ex.coerce(b, at)
			_, s, _ := intInfo(at)
			op := "bvule"
			if s {
				op = "bvsle"
			}
			c := BVCmp(op, a.(*Term), b.(*Term))
			if fn.Name == "max" {
				return Ite(c, b.(*Term), a.(*Term)), at
			}
			return Ite(c, a.(*Term), b.(*Term)), at
		case "sep":
			a, _ := ex.evalSpec(args[0], env)
			b, _ := ex.evalSpec(args[1], env)
			sa, sb := a.(*SliceV), b.(*SliceV)
			capOf := func(s *SliceV) *Term {
				if s.Cap != nil {
					return s.Cap
				}
				return s.Len
			}
			return Or(Neq(sa.Arr, sb.Arr), BVCmp("bvsle", BVOp("bvadd", sa.Off, capOf(sa)), sb.Off), BVCmp("bvsle", BVOp("bvadd", sb.Off, capOf(sb)), sa.Off)), boolT
		case "seencount":
			// number of keys the current range over map m has produced
			mv, mtp := ex.evalSpec(args[0], env)
			mt, ok := under(mtp).(*types.Map)
			if !ok {
				specFail("seencount: not a map: %s", args[0].String())
			}
			_, _, _, ks, sup := mapComps(mt)
			if !sup {
				specFail("unsupported map type in spec")
			}
			comp, _ := seenComp(mt, ks)
			return Select(ex.get(env.cur, comp+":count", ArrSort(SRef, BV(64))), mv.(*Term)), intT
		case "haskey", "seen":
			// haskey(m, k): k is present in map m; seen(m, k): the current range over m has
			// already produced key k
			mv, mtp := ex.evalSpec(args[0], env)
			mt, ok := under(mtp).(*types.Map)
			if !ok {
				specFail("%s: not a map: %s", fn.Name, args[0].String())
			}
			has, _, _, ks, sup := mapComps(mt)
			if !sup {
				specFail("unsupported map type in spec")
			}
			kv, _ := ex.evalSpec(args[1], env)
			k := ex.mapKey(mt.Key(), ex.coerce(kv, mt.Key()))
			comp := has
			if fn.Name == "seen" {
				comp, _ = seenComp(mt, ks)
			}
			return Select(Select(ex.get(env.cur, comp, ArrSort(SRef, ArrSort(ks, SBool))), mv.(*Term)), k), boolT
		case "samearr":
			a, _ := ex.evalSpec(args[0], env)
			b, _ := ex.evalSpec(args[1], env)
			sa, sb := a.(*SliceV), b.(*SliceV)
			return And(Eq(sa.Arr, sb.Arr), Eq(sa.Off, sb.Off)), boolT
		case "sameslice":
			a, _ := ex.evalSpec(args[0], env)
			b, _ := ex.evalSpec(args[1], env)
			sa, sb := a.(*SliceV), b.(*SliceV)
			return And(Eq(sa.Arr, sb.Arr), Eq(sa.Off, sb.Off), Eq(sa.Len, sb.Len), Eq(sa.Cap, sb.Cap)), boolT
		case "arr":
			a, _ := ex.evalSpec(args[0], env)
			return a.(*SliceV).Arr, types.Typ[types.UnsafePointer]
		case "addr":
			// addr(pkg.Var) / addr(Var): address of a package-level variable
			name, pkg := "", env.pkg
			switch args[0].Op {
			case "ident":
				name = args[0].Name
			case "sel":
				name, pkg = args[0].Name, args[0].Args[0].Name
			}
			if tp := ex.P.findPkg(pkg); tp != nil {
				if v, ok := tp.Scope().Lookup(name).(*types.Var); ok {
					if sp := ex.P.prog.Package(v.Pkg()); sp != nil {
						if g, ok := sp.Members[name].(*ssa.Global); ok {
							if aggregate(v.Type()) {
								return Var(ex.globalPtr(g).name+"$obj", SRef), types.NewPointer(v.Type())
							}
							return ex.globalPtr(g), types.NewPointer(v.Type())
						}
					}
				}
			}
			specFail("addr: unknown package variable %s", args[0].String())
		case "off":
			a, _ := ex.evalSpec(args[0], env)
			return a.(*SliceV).Off, intT
		case "bytes", "seq":
			a, at := ex.evalSpec(args[0], env)
			if sq, ok := a.(*SeqV); ok {
				return sq, at
			}
			sa, sb, ok := ex.asSeqs(a, at, &SeqV{A: Select(STR, Null), Off: BVu(0, 64), Len: BVu(0, 64)}, nil, env)
			_ = sb
			if !ok {
				specFail("bytes() of non-byte-slice")
			}
			return sa, types.NewSlice(types.Typ[types.Uint8])
		case "istype":
			a, _ := ex.evalSpec(args[0], env)
			if len(args) != 2 {
				specFail("istype(x, T)")
			}
			t := ex.resolveType(typeExprString(args[1]), env.pkg)
			if types.IsInterface(t) {
				// istype(x, I) for an interface type I: the dynamic type of x implements I (what the
				// type assertion x.(I) tests)
				iv := ex.asIface(a)
				return And(Neq(iv.Tag, IntLit(0)), ex.implementsTerm(iv.Tag, t)), boolT
			}
			return Eq(ex.asIface(a).Tag, typeTag(t)), boolT
		case "any":
			a, t := ex.evalSpec(args[0], env)
			if t == nil {
				specFail("any() of untyped value")
			}
			if _, ok := a.(*IfaceV); ok {
				return a, t
			}
			return &IfaceV{Tag: typeTag(t), Data: box(t, a)}, types.Universe.Lookup("any").Type()
		case "isnil":
			a, t := ex.evalSpec(args[0], env)
			return ex.valEq(t, a, zeroVal(t)), boolT
		case "isobj":
			// isobj(x): x refers to an object (for an interface value: it is not nil and what it
			// holds is not a nil pointer either)
			a, _ := ex.evalSpec(args[0], env)
			if iv, ok := a.(*IfaceV); ok {
				return And(Neq(iv.Tag, IntLit(0)), Neq(iv.Data, Null)), boolT
			}
			return Neq(refOf(a), Null), boolT
		case "fresh":
			// fresh(x): allocated during the call (not in the old state)
			a, _ := ex.evalSpec(args[0], env)
			r := refOf(a)
			return Not(IntOp("<", birth(r), env.old.now)), boolT
		case "allocated":
			a, _ := ex.evalSpec(args[0], env)
			r := refOf(a)
			return IntOp("<", birth(r), env.cur.now), boolT
		case "ite":
			c := ex.evalBool(args[0], env)
			a, at := ex.evalSpec(args[1], env)
			b, bt := ex.evalSpec(args[2], env)
			if at == nil {
				a, at = ex.coerce(a, bt), bt
			}
			b = ex.coerce(b, at)
			return iteVal(c, at, a, b), at
		case "uint8", "uint16", "uint32", "uint64", "int8", "int16", "int32", "int64", "int", "uint", "byte", "uintptr", "string":
			t := ex.resolveType(fn.Name, env.pkg)
			v, ft := ex.evalSpec(args[0], env)
			if u, ok := v.(untyped); ok {
				w, _, _ := intInfo(t)
				return BVLit(u.v, w), t
			}
			return ex.convertVal(ft, t, v, env.cur), t
		}
		// user definitions
		if d, ok := ex.P.cs.Defs[fn.Name]; ok {
			if env.depth > 40 {
				specFail("definition %s: expansion too deep", d.Name)
			}
			if len(args) != len(d.Params) {
				specFail("%s expects %d arguments", d.Name, len(d.Params))
			}
			n := &SpecEnv{ex: ex, pkg: d.Pkg, vars: map[string]specBinding{}, cur: env.cur, old: env.old, slSt: env.slSt, probe: env.probe, depth: env.depth + 1}
			for i, p := range d.Params {
				v, t := ex.evalSpec(args[i], env)
				pt := ex.resolveType(p.Type, d.Pkg)
				if t == nil {
					v = ex.coerce(v, pt)
				}
				n.vars[p.Name] = specBinding{val: v, typ: pt}
			}
			var v Val
			var t types.Type
			if d.Opaque && !ex.revealed[d.Name] {
				// hidden definition: an uninterpreted function of the arguments and of the heap
				// components its body reads (found by evaluating the body on placeholder arguments,
				// so that heap reads made while computing the actual arguments do not count)
				ph := &SpecEnv{ex: ex, pkg: d.Pkg, vars: map[string]specBinding{}, cur: env.cur, old: env.old, slSt: env.slSt, probe: env.probe, depth: env.depth + 1}
				var fargs []*Term
				for _, p := range d.Params {
					b := n.vars[p.Name]
					ph.vars[p.Name] = specBinding{val: varVal("opqarg$"+d.Name+"$"+p.Name, b.typ), typ: b.typ}
					fargs = append(fargs, flat(b.val)...)
				}
				pv, pt := ex.evalSpec(d.Body, ph)
				bt, ok := pv.(*Term)
				if !ok {
					specFail("opaque definition %s must be scalar", d.Name)
				}
				comps := heapDeps(bt)
				v, t = App("opq$"+d.Name+"$"+depSig(comps), bt.sort, append(fargs, comps...)...), pt
			} else {
				v, t = ex.evalSpec(d.Body, n)
			}
			if d.Ret != "" {
				rt := ex.resolveType(d.Ret, d.Pkg)
				if t == nil {
					v = ex.coerce(v, rt)
				}
				t = rt
			}
			return v, t
		}
		if g, ok := ex.P.cs.Ghosts[fn.Name]; ok {
			return ex.evalGhost(g, args, env)
		}
		// conversion to a named type of the package
		if tp := ex.P.findPkg(env.pkg); tp != nil {
			if o := tp.Scope().Lookup(fn.Name); o != nil {
				if tn, ok := o.(*types.TypeName); ok && len(args) == 1 {
					v, ft := ex.evalSpec(args[0], env)
					if ft == nil {
						return ex.coerce(v, tn.Type()), tn.Type()
					}
					return ex.convertVal(ft, tn.Type(), v, env.cur), tn.Type()
				}
			}
		}
	}
	if fn.Op == "sel" && fn.Args[0].Op == "ident" {
		// pkg.Type(x) conversion
		if tp := ex.P.findPkg(fn.Args[0].Name); tp != nil {
			if o := tp.Scope().Lookup(fn.Name); o != nil {
				if tn, ok := o.(*types.TypeName); ok && len(args) == 1 {
					v, ft := ex.evalSpec(args[0], env)
					if ft == nil {
						return ex.coerce(v, tn.Type()), tn.Type()
					}
					return ex.convertVal(ft, tn.Type(), v, env.cur), tn.Type()
				}
			}
		}
	}
	specFail("unknown function in spec: %s", fn.String())
	return nil, nil
}

func typeExprString(e *SExpr) string {
	switch e.Op {
	case "type":
		return e.Name
	case "ident":
		return e.Name
	case "sel":
		return typeExprString(e.Args[0]) + "." + e.Name
	case "deref":
		return "*" + typeExprString(e.Args[0])
	}
	specFail("type expected: %s", e.String())
	return ""
}

// ghost state: a mutable ghost is a heap component keyed by the (single) Ref argument;
// an immutable ghost is an uninterpreted function of its flattened arguments.
func (ex *Exec) evalGhost(g *GhostDecl, args []*SExpr, env *SpecEnv) (Val, types.Type) {
	var flatArgs []*Term
	for i, a := range args {
		v, t := ex.evalSpec(a, env)
		if t == nil && i < len(g.Params) {
			v = ex.coerce(v, ex.resolveType(g.Params[i].Type, g.Pkg))
		}
		if i < len(g.Params) && t != nil {
			pt := ex.resolveType(g.Params[i].Type, g.Pkg)
			if types.IsInterface(pt) && !types.IsInterface(t) {
				v = &IfaceV{Tag: typeTag(t), Data: box(t, v)}
			}
		}
		if iv, ok := v.(*IfaceV); ok {
			flatArgs = append(flatArgs, iv.Data)
			continue
		}
		flatArgs = append(flatArgs, flat(v)...)
	}
	if g.Ret == "seq" {
		// byte stream
		if g.Immutable {
			return &SeqV{A: App("ghost$"+g.Name, ArrSort(BV(64), BV(8)), flatArgs...), Off: BVu(0, 64), Len: BVu(1<<62, 64)}, types.NewSlice(types.Typ[types.Uint8])
		}
		specFail("mutable seq ghosts are not supported")
	}
	rt := ex.resolveType(g.Ret, g.Pkg)
	ls := leaves(rt)
	if g.Immutable {
		ts := make([]*Term, len(ls))
		for i, l := range ls {
			ts[i] = App("ghost$"+g.Name+l.path, l.sort, flatArgs...)
		}
		return unflat(rt, ts), rt
	}
	if len(flatArgs) == 0 {
		// a global ghost variable: kept at the null reference
		flatArgs = []*Term{Null}
	}
	if len(flatArgs) != 1 || flatArgs[0].sort != SRef {
		specFail("mutable ghost %s must take one reference argument", g.Name)
	}
	ts := make([]*Term, len(ls))
	for i, l := range ls {
		ts[i] = Select(ex.get(env.cur, "ghost:"+g.Name+l.path, ArrSort(SRef, l.sort)), flatArgs[0])
		if g.HasRange && bvWidth(l.sort) == 64 && !ts[i].isLit() {
			ts[i].AddFact(And(BVCmp("bvsle", BVLit(big.NewInt(g.Lo), 64), ts[i]), BVCmp("bvslt", ts[i], BVLit(big.NewInt(g.Hi), 64))))
			ex.assumes[fmt.Sprintf("every value of ghost %s lies in [%d, %d)", g.Name, g.Lo, g.Hi)] = true
		}
	}
	return unflat(rt, ts), rt
}

func refOf(v Val) *Term {
	switch x := v.(type) {
	case *IfaceV:
		return x.Data
	case *SliceV:
		return x.Arr
	}
	return flat(v)[0]
}

// reindexQuant rewrites `forall k :: ... A[base+k] ...` into `forall j :: ... A[j] ...` (k := j - base)
// so that the quantifier has a trigger without arithmetic: select(A, j). Memory arrays are
// preferred over ghost streams as the trigger.
func reindexQuant(k *Term, body *Term) (*Term, *Term, []*Term) {
	type cand struct {
		arr, base *Term
		ghost     bool
	}
	var cands []cand
	seen := map[int]bool{}
	var walk func(t *Term)
	walk = func(t *Term) {
		if seen[t.id] || !t.bound {
			return
		}
		seen[t.id] = true
		if t.op == "select" && !t.args[0].bound {
			idx := t.args[1]
			var base *Term
			if b, ok := linMinus(idx, k); ok && !b.bound {
				base = b
			}
			if base != nil {
				g := false
				r := t.args[0]
				for r.op == "select" || r.op == "store" {
					r = r.args[0]
				}
				if (r.op == "app" && strings.HasPrefix(r.name, "ghost$")) || r == STR {
					g = true
				}
				cands = append(cands, cand{t.args[0], base, g})
			}
		}
		for _, a := range t.args {
			walk(a)
		}
	}
	walk(body)
	if len(cands) == 0 {
		return nil, nil, nil
	}
	best := cands[0]
	for _, c := range cands {
		if best.ghost && !c.ghost {
			best = c
		}
	}
	j := Bound("j", BV(64))
	nb := Subst(body, map[int]*Term{k.id: BVOp("bvsub", j, best.base)})
	pat := Select(best.arr, j)
	if !containsTerm(nb, pat) {
		return nil, nil, nil
	}
	return j, nb, []*Term{pat}
}

func containsTerm(t, x *Term) bool {
	seen := map[int]bool{}
	var walk func(t *Term) bool
	walk = func(t *Term) bool {
		if t == x {
			return true
		}
		if seen[t.id] {
			return false
		}
		seen[t.id] = true
		for _, a := range t.args {
			if walk(a) {
				return true
			}
		}
		return false
	}
	return walk(t)
}

// heapDeps: the maximal heap-component sub-terms (arrays indexed by Ref) a term depends on.
func heapDeps(t *Term) []*Term {
	var out []*Term
	seen := map[int]bool{}
	var walk func(t *Term)
	walk = func(t *Term) {
		if seen[t.id] {
			return
		}
		seen[t.id] = true
		if strings.HasPrefix(t.sort, "(Array Ref") {
			out = append(out, t)
			return
		}
		for _, a := range t.args {
			walk(a)
		}
	}
	walk(t)
	sort.Slice(out, func(i, j int) bool { return compName(out[i]) < compName(out[j]) || (compName(out[i]) == compName(out[j]) && out[i].id < out[j].id) })
	return out
}

// compName: the component a heap term belongs to (by its base variable).
func compName(t *Term) string {
	for t.op == "store" || t.op == "ite" {
		if t.op == "ite" {
			t = t.args[1]
		} else {
			t = t.args[0]
		}
	}
	n := t.name
	for _, p := range []string{"H0$", "H$", "lh$", "hv$"} {
		n = strings.TrimPrefix(n, p)
	}
	if i := strings.LastIndex(n, "!"); i >= 0 {
		n = n[:i]
	}
	return n
}

func depSig(comps []*Term) string {
	var names []string
	for _, c := range comps {
		names = append(names, compName(c))
	}
	return fmt.Sprintf("%d$%08x", len(comps), hashStr(strings.Join(names, ",")))
}
