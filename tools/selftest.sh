#!/bin/bash
# Must-fail / must-pass corpus: every seeded property-breaking change under seeded/ must make the
# check of its property exit 1 with a VIOLATION line; every behaviour-preserving edit under benign/
# must leave the checks of the properties it touches at exit 0. Each patch is applied to a scratch
# worktree of /repo outside /repo and /verif (removed afterwards); evidence of these runs goes to
# a scratch root, never to /verif/evidence. Usage: tools/selftest.sh [name-filter]
set -u
filter=${1:-}
root=$(mktemp -d /tmp/gvc-selftest-root.XXXX)
cp -r /verif/contracts /verif/props.json /verif/known_findings.json "$root"/
wt=$(mktemp -d /tmp/gvc-selftest-wt.XXXX); rmdir "$wt"
git -C /repo worktree add -q "$wt" HEAD || exit 2
trap 'git -C /repo worktree remove --force "$wt" 2>/dev/null; rm -rf "$root"' EXIT
out=/verif/selftest/RESULTS.md
mkdir -p /verif/selftest
{
echo "# selftest run $(date -u +%Y-%m-%dT%H:%MZ), /repo at $(git -C /repo log --format=%h -1)"
echo
echo "| corpus | patch | check | expected | got | failing obligations |"
echo "|---|---|---|---|---|---|"
} > "$out.tmp"
fail=0
run() { # kind name patch expected props...
  kind=$1; name=$2; patch=$3; want=$4; shift 4
  git -C "$wt" checkout -q -- . ; git -C "$wt" apply "$patch" || { echo "| $kind | $name | - | - | patch does not apply | |" >> "$out.tmp"; fail=1; return; }
  for p in "$@"; do
    log=$(GVC_ROOT="$root" /verif/bin/gvc check "$p" --repo "$wt" --tier quick --no-replay 2>&1); rc=$?
    obl=$(echo "$log" | grep -o 'obligation=[^ ]*' | sed 's/obligation=//' | sort -u | head -3 | tr '\n' ' ')
    echo "| $kind | $name | $p | exit $want | exit $rc | $obl |" >> "$out.tmp"
    [ "$rc" = "$want" ] || fail=1
  done
}
for d in /verif/seeded/*/; do
  name=$(basename "$d"); [[ -n "$filter" && "$name" != *"$filter"* ]] && continue
  prop=${name%%-*}
  run seeded "$name" "$d/patch.diff" 1 "$prop"
done
declare -A touch=( [01]="C01 C08" [02]="C06" [03]="C02 C05" [04]="C02 C06" [05]="C14 C06" [06]="C10" [07]="C17" [08]="C04" [09]="C03" [10]="C07" [11]="C10" [12]="C14 C06" [13]="C04 C14" [14]="C13 C08" )
for f in /verif/benign/*.diff; do
  n=$(basename "$f" .diff); [[ -n "$filter" && "benign-$n" != *"$filter"* ]] && continue
  run benign "$n" "$f" 0 ${touch[$n]}
done
mv "$out.tmp" "$out"
cat "$out"
exit $fail
