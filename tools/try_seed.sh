#!/bin/bash
# usage: try_seed.sh <patch.diff> <prop>...   — apply a seeded change to /repo, run the quick checks, undo it.
set -u
patch=$1; shift
cd /repo || exit 2
git diff --quiet || { echo "repo not clean"; exit 2; }
git apply "$patch" || { echo "patch does not apply"; exit 2; }
trap 'git -C /repo checkout -- . ' EXIT
for p in "$@"; do
  mkdir -p /tmp/seedev
  cp /verif/evidence/$p.json /tmp/seedev/$p.json 2>/dev/null
  ( cd /verif && bin/gvc check $p --tier quick 2>&1 | grep -E 'VIOLATION|KNOWN|ENGINE|^check' | cut -c1-400 ; echo "exit=${PIPESTATUS[0]}" )
  cp /tmp/seedev/$p.json /verif/evidence/$p.json 2>/dev/null
done
for f in /verif/replays/*/*.json; do [ -f "$f" ] && jq -r '"  replay: " + .obligation + " reproduced=" + (.reproduced|tostring) + " input=" + ((.input_hex // "")|tostring|.[0:60]) + " " + ((.detail // "")|.[0:160])' "$f"; done
rm -rf /verif/replays/* 2>/dev/null
