#!/bin/bash
# usage: try_seed.sh <patch.diff> <prop>...   — apply a seeded change to /repo, run the quick checks, undo it.
set -u
patch=$1; shift
cd /repo || exit 2
git diff --quiet || { echo "repo not clean"; exit 2; }
git apply "$patch" || { echo "patch does not apply"; exit 2; }
trap 'git -C /repo checkout -- . ' EXIT
for p in "$@"; do
  mkdir -p /tmp/seedev
  cp /verif/evidence/$p.json /tmp/seedev/$p.json 2>/dev/null
  ( cd /verif && bin/gvc check $p --tier quick 2>&1 | grep -E 'VIOLATION|KNOWN|ENGINE|^check' | cut -c1-400 ; echo "exit=${PIPESTATUS[0]}" )
  cp /tmp/seedev/$p.json /verif/evidence/$p.json 2>/dev/null
done
rm -rf /verif/replays/* 2>/dev/null
