#!/bin/sh
# Build the verifier from files on disk only (offline).
set -e
cd "$(dirname "$0")/gvc"
export GOFLAGS=-mod=mod GOPROXY=off GOSUMDB=off GOTOOLCHAIN=local
mkdir -p ../bin
go build -o ../bin/gvc .
